(* ModelHist_proofs.v — the model's operations, in ANY history and under ANY fault per step, are
   accepted by the history-level durability checker; with DurHist_proofs.history_acked_durable this
   is C09 for the model over histories with failed operations in them.  STATEMENTS ARE FIXED. *)
From Whawty Require Import Bytes Bytes_proofs Base64 Names Record Record_proofs Store StoreTrace Crash Crash_proofs.
From Whawty Require Import StoreOps_proofs StoreTrace_proofs CrashX_proofs AckedDurable_proofs DurHist DurHist_proofs ModelHist.
From Coq Require Import Lia PeanoNat.
Open Scope N_scope.

(* ---------------- auxiliaries ---------------- *)
(* a trace that ends with the fsync of the base directory leaves no name dirty *)
Lemma dna_snoc_fsync l : forall dn, dirty_names_after (l ++ [EFsync LBaseDir]) dn = [].
Proof.
  induction l as [|e l IH]; intros dn; [reflexivity|].
  cbn [app].
  destruct e as [[g|t| |]|[g|t| |]|[g|t| |] data|[g|t| |]|[g|t| |] [g'|t'| |]|[g|t| |]];
    cbn [dirty_names_after]; apply IH.
Qed.

Lemma clean_emit_fsync s dn : dirty_names_after (events (emit (EFsync LBaseDir) s)) dn = [].
Proof. unfold events. cbn [t_ev emit rev]. apply dna_snoc_fsync. Qed.

Definition dir_ev (e : event) : Prop :=
  match e with
  | ERename (LFile _) (LFile _) | EUnlink (LFile _) | EFsync LBaseDir => True
  | _ => False
  end.

Lemma dir_only_of_forall s : Forall dir_ev (t_ev s) -> dir_only_b (events s) = true.
Proof.
  intros H. unfold dir_only_b, events. apply forallb_forall. intros e Hin.
  apply in_rev in Hin. rewrite Forall_forall in H. specialize (H e Hin).
  destruct e as [[g|t| |]|[g|t| |]|[g|t| |] data|[g|t| |]|[g|t| |] [g'|t'| |]|[g|t| |]];
    cbn [dir_ev] in H; try (exfalso; exact H); reflexivity.
Qed.

Lemma set_admin_dir_only ft d u adm :
  dir_only_b (events (snd (p_set_admin ft d u adm))) = true.
Proof.
  apply dir_only_of_forall. unfold p_set_admin.
  destruct (valid_name u); cbn [negb snd]; [|constructor].
  destruct (p_exists ft u (t0 d)) as [ex s1] eqn:Ex.
  apply p_exists_spec in Ex as (_ & Hev & _). cbn [t_ev t0] in Hev.
  assert (H1 : Forall dir_ev (t_ev s1)) by (rewrite Hev; constructor).
  destruct ex as [cur| |]; try exact H1.
  destruct (Bool.eqb cur adm).
  { repeat (rewrite tick_eq; cbv beta iota).
    terr_cases; cbn [snd t_ev bump emit]; try exact H1.
    apply Forall_cons; [exact I|exact H1]. }
  repeat (rewrite tick_eq; cbv beta iota).
  destruct (terr ft KRename (bump KStat s1)) as [e3|]; [exact H1|].
  destruct (dlookup _ _) as [n|]; [|exact H1].
  match goal with |- context [if ?b then _ else _] => destruct b end; [|exact H1].
  repeat (rewrite tick_eq; cbv beta iota).
  terr_cases; cbn [snd t_ev bump emit setdir];
    repeat (apply Forall_cons; [exact I|]); exact H1.
Qed.

Lemma remove_dir_only ft d u :
  dir_only_b (events (p_remove_user ft d u)) = true.
Proof.
  apply dir_only_of_forall. unfold p_remove_user.
  destruct (valid_name u); cbn [negb]; [|constructor].
  repeat (rewrite tick_eq; cbv beta iota).
  assert (H2 : Forall dir_ev
                 (t_ev (p_remove ft (LFile (u ++ ext_user))
                                 (p_remove ft (LFile (u ++ ext_admin)) (t0 d))))).
  { apply p_remove_ev_forall; [exact I|]. apply p_remove_ev_forall; [exact I|]. constructor. }
  terr_cases; cbn [t_ev bump emit]; try exact H2.
  apply Forall_cons; [exact I|exact H2].
Qed.

Lemma ack_clean_nil s : ack_clean s [] = true.
Proof. unfold ack_clean. destruct (h_ack s); reflexivity. Qed.

(* an acknowledging operation leaves NOTHING dirty, whatever was dirty before it started *)
Theorem acked_set_admin_clean ft d u adm s dn :
  p_set_admin ft d u adm = (ROk, s) -> dirty_names_after (events s) dn = [].
Proof.
  unfold p_set_admin.
  destruct (negb (valid_name u)); [discriminate|].
  destruct (p_exists ft u (t0 d)) as [ex s1] eqn:Ex.
  destruct ex as [cur| |]; try discriminate.
  destruct (Bool.eqb cur adm).
  { repeat (rewrite tick_eq; cbv beta iota zeta).
    destruct (terr ft KOpen _) as [e4|]; [discriminate|].
    destruct (terr ft KFsync _) as [e5|]; [discriminate|].
    intros H. injection H as <-. apply clean_emit_fsync. }
  repeat (rewrite tick_eq; cbv beta iota zeta).
  destruct (terr ft KRename _) as [e3|]; [discriminate|].
  destruct (dlookup (u ++ ext_of cur) _) as [n|]; [|discriminate].
  match goal with |- (if ?c then _ else _) = _ -> _ => destruct c end; [|discriminate].
  repeat (rewrite tick_eq; cbv beta iota zeta).
  destruct (terr ft KOpen _) as [e4|]; [discriminate|].
  destruct (terr ft KFsync _) as [e5|]; [discriminate|].
  intros H. injection H as <-. apply clean_emit_fsync.
Qed.

Theorem acked_remove_clean ft d u dn :
  valid_name u = true -> p_remove_user_res ft d u = ROk ->
  dirty_names_after (events (p_remove_user ft d u)) dn = [].
Proof.
  intros Hv. unfold p_remove_user_res, p_remove_user. rewrite Hv. cbn [negb].
  repeat (rewrite tick_eq; cbv beta iota zeta).
  destruct (terr ft KOpen _) as [e3|].
  { rewrite Bool.orb_true_r. discriminate. }
  destruct (terr ft KFsync _) as [e4|].
  { rewrite Bool.orb_true_r. discriminate. }
  intros _. apply clean_emit_fsync.
Qed.

Section Programs.
  Variable kdf : hasher -> bytes -> bytes -> option bytes.

  Theorem acked_add_clean ft c d u pw adm o s dn :
    p_add kdf ft c d u pw adm o = (ROk, s) -> dirty_names_after (events s) dn = [].
  Proof.
    intros H. apply (acked_add_complete kdf) in H. destruct H as (Hc & _).
    eapply complete_cleans; exact Hc.
  Qed.

  Theorem acked_update_clean ft c d u pw o s dn :
    p_update kdf ft c d u pw o = (ROk, s) -> dirty_names_after (events s) dn = [].
  Proof.
    intros H. destruct (acked_update_user_exists kdf _ _ _ _ _ _ _ H) as (adm & Hex).
    destruct (acked_update_complete kdf _ _ _ _ _ _ _ _ H Hex) as (Hc & _).
    eapply complete_cleans; exact Hc.
  Qed.

  (* an update that does not find the user under the undisturbed lookup makes no change at all *)
  Lemma update_no_user_events ft c d u pw o r s :
    p_update kdf ft c d u pw o = (r, s) ->
    (forall adm, user_exists d u <> ExYes adm) -> events s = [].
  Proof.
    unfold p_update. intros H Hex. revert H.
    destruct (valid_name u) eqn:Hv; cbn [negb]; [|intros H; injection H as _ <-; reflexivity].
    destruct (p_exists ft u (t0 d)) as [ex s1] eqn:Ex.
    apply p_exists_spec in Ex as (_ & Hev & Hr & _). cbn [t_ev t_dir t0] in Hev, Hr.
    assert (H1 : (RErr, s1) = (r, s) -> events s = []).
    { intros H. injection H as _ <-. unfold events. now rewrite Hev. }
    destruct ex as [a| |]; try exact H1.
    exfalso. destruct Hr as [Hr|Hr]; [|discriminate Hr]. exact (Hex a (eq_sym Hr)).
  Qed.

  (* every step the model produces has the shape the checker expects *)
  Theorem mstep_shape_ok c d x :
    step_shape_ok (snd (mstep kdf c d x)) = true.
  Proof.
    destruct x as [[op ft] orc]. destruct op as [u pw adm|u pw|u adm|u]; unfold mstep.
    - destruct (p_add kdf ft c d u pw adm orc) as [r s] eqn:E.
      unfold step_shape_ok. cbn [snd h_shape h_evs].
      eapply add_follows_protocol_x; exact E.
    - destruct (p_update kdf ft c d u pw orc) as [r s] eqn:E.
      unfold step_shape_ok. cbn [snd h_shape h_evs].
      destruct (user_exists d u) as [adm| |] eqn:Hex.
      + eapply update_follows_protocol_x; [exact E|exact Hex].
      + rewrite (update_no_user_events _ _ _ _ _ _ _ _ E); [reflexivity|]. intros adm; rewrite Hex; discriminate.
      + rewrite (update_no_user_events _ _ _ _ _ _ _ _ E); [reflexivity|]. intros adm; rewrite Hex; discriminate.
    - pose proof (set_admin_dir_only ft d u adm) as H.
      destruct (p_set_admin ft d u adm) as [r s].
      unfold step_shape_ok. cbn [snd h_shape h_evs]. exact H.
    - unfold step_shape_ok. cbn [snd h_shape h_evs]. apply remove_dir_only.
  Qed.

  (* and acknowledges only with its user's names clean *)
  Theorem mstep_ack_clean c d x dn :
    ack_clean (snd (mstep kdf c d x)) (dirty_names_after (h_evs (snd (mstep kdf c d x))) dn) = true.
  Proof.
    destruct x as [[op ft] orc]. destruct op as [u pw adm|u pw|u adm|u]; unfold mstep.
    - destruct (p_add kdf ft c d u pw adm orc) as [r s] eqn:E. cbn [snd h_evs].
      destruct r; [|reflexivity].
      rewrite (acked_add_clean _ _ _ _ _ _ _ _ dn E). apply ack_clean_nil.
    - destruct (p_update kdf ft c d u pw orc) as [r s] eqn:E. cbn [snd h_evs].
      destruct r; [|reflexivity].
      rewrite (acked_update_clean _ _ _ _ _ _ _ dn E). apply ack_clean_nil.
    - destruct (p_set_admin ft d u adm) as [r s] eqn:E. cbn [snd h_evs].
      destruct r; [|reflexivity].
      rewrite (acked_set_admin_clean _ _ _ _ _ dn E). apply ack_clean_nil.
    - cbn [snd h_evs].
      destruct (valid_name u) eqn:Hv; [|reflexivity].
      destruct (p_remove_user_res ft d u) eqn:Er; [|reflexivity].
      rewrite (acked_remove_clean _ _ _ dn Hv Er). apply ack_clean_nil.
  Qed.

  Theorem model_histories_accepted c : forall xs d dn,
    hist_ok (mrun kdf c d xs) dn = true.
  Proof.
    induction xs as [|x xs IH]; intros d dn; [reflexivity|].
    cbn [mrun].
    pose proof (mstep_shape_ok c d x) as Hs.
    pose proof (mstep_ack_clean c d x dn) as Ha.
    destruct (mstep kdf c d x) as [d' s]. cbn [snd] in Hs, Ha.
    cbn [hist_ok]. rewrite Hs, Ha, IH. reflexivity.
  Qed.

  Lemma mrun_length c : forall xs d, length (mrun kdf c d xs) = length xs.
  Proof.
    induction xs as [|x xs IH]; intros d; [reflexivity|].
    cbn [mrun]. destruct (mstep kdf c d x) as [d' s]. cbn [length]. now rewrite IH.
  Qed.

  (* C09 for the model over histories: after any history of model operations - any faults, any
     failures - every crash state that can follow an acknowledged operation on user u shows under
     u's names what running processes saw when it returned *)
  Theorem model_history_acked_durable c : forall xs x d d0 u cr,
    base_quiescent d0 -> tmp_inj d0 ->
    h_ack (last (mrun kdf c d (xs ++ [x])) {| h_shape := HDir; h_ack := None; h_evs := [] |}) = Some u ->
    crash_of (exec_events d0 (hist_events (mrun kdf c d (xs ++ [x])))) cr ->
    crashed_file cr (u ++ ext_user) = vol_file (exec_events d0 (hist_events (mrun kdf c d (xs ++ [x])))) (u ++ ext_user) /\
    crashed_file cr (u ++ ext_admin) = vol_file (exec_events d0 (hist_events (mrun kdf c d (xs ++ [x])))) (u ++ ext_admin).
  Proof.
    intros xs x d d0 u cr Hq Ht.
    pose proof (model_histories_accepted c (xs ++ [x]) d []) as Hok.
    pose proof (mrun_length c (xs ++ [x]) d) as Hlen.
    remember (mrun kdf c d (xs ++ [x])) as l eqn:El. clear El.
    destruct (exists_last (l:=l)) as (h & s & ->).
    { intros ->. rewrite app_length in Hlen. cbn [length] in Hlen. lia. }
    rewrite last_last. intros Hack Hcr. eapply history_acked_durable; eauto.
  Qed.
End Programs.

Print Assumptions model_history_acked_durable.
Print Assumptions model_histories_accepted.
