(* StoreInv_proofs.v — invariants of ARBITRARY valid stores under every
   operation (C16), and the hash-upgrade step (C12). *)
From Whawty Require Import Bytes Bytes_proofs Base64 Base64_proofs Names Names_proofs Record Record_proofs
     Store StoreOps_proofs StoreSpec Store_proofs.
From Coq Require Import ZifyN ZifyNat ZifyBool Permutation.
Open Scope N_scope.

(* a well-formed store directory: distinct entries built from valid, not
   over-long names; every entry other than .tmp is a regular file named
   <name>.user or <name>.admin; no name has both; the work area is absent or
   an empty directory *)
Definition wf_store (d : dirst) : Prop :=
  NoDup (keys d) /\ names_ok d /\
  (forall f n, In (f, n) d -> f <> tmp_name ->
     check_user_file f <> None /\ exists content, n = File content) /\
  (forall f n u adm, In (f, n) d -> f <> tmp_name -> check_user_file f = Some (u, adm) ->
     dlookup (u ++ ext_of (negb adm)) d = None) /\
  (dlookup tmp_name d = None \/ dlookup tmp_name d = Some (Dir [])).

Definition dir_of {A B} (x : A * dirst * B) : dirst := snd (fst x).
Definition cfg_of {A B} (x : config * A * B) : config := fst (fst x).


(* ------------------------------------------------------------------ *)
(* auxiliaries: NoDup of the key list, seen through dlookup *)
Lemma in_keys_dlookup k d : In k (keys d) <-> dlookup k d <> None.
Proof.
  unfold keys. induction d as [|[k' v] r IH]; cbn [map fst In dlookup].
  - split; [intros []|intros H; now apply H].
  - destruct (beq_spec k k') as [->|Hne].
    + split; [discriminate|auto].
    + rewrite <- IH. split; [intros [E|H]; [congruence|exact H]|auto].
Qed.

Lemma nodup_dnodup d : NoDup (keys d) <-> dnodup d.
Proof.
  induction d as [|[k v] r IH]; cbn [keys map fst dnodup].
  - split; [auto|constructor].
  - split.
    + intros H. inversion H as [|x l Hni Hnd]; subst. split; [|now apply IH].
      destruct (dlookup k r) eqn:E; [|reflexivity].
      exfalso. apply Hni. apply (in_keys_dlookup k r). congruence.
    + intros [H1 H2]. constructor; [|now apply IH].
      intros Hin. apply (in_keys_dlookup k r) in Hin. congruence.
Qed.

Lemma nodup_dset k v d : NoDup (keys d) -> NoDup (keys (dset k v d)).
Proof. rewrite !nodup_dnodup. apply dnodup_dset. Qed.

Lemma nodup_dremove k d : NoDup (keys d) -> NoDup (keys (dremove k d)).
Proof. rewrite !nodup_dnodup. apply dnodup_dremove. Qed.

Lemma unlink_cases f d : unlink f d = d \/ unlink f d = dremove f d.
Proof. unfold unlink. destruct (dlookup f d) as [[ct|[|x l]]|]; auto. Qed.

Lemma nodup_unlink f d : NoDup (keys d) -> NoDup (keys (unlink f d)).
Proof. intros H. destruct (unlink_cases f d) as [-> | ->]; [exact H|now apply nodup_dremove]. Qed.

Lemma dlookup_unlink_ne f k d : k <> f -> dlookup k (unlink f d) = dlookup k d.
Proof.
  intros H. destruct (unlink_cases f d) as [-> | ->]; [reflexivity|].
  rewrite dlookup_dremove. destruct (beq_spec k f); [contradiction|reflexivity].
Qed.

Lemma ext_neq' u a : u ++ ext_of (negb a) <> u ++ ext_of a.
Proof. intros H. symmetry in H. revert H. apply ext_neq. Qed.

(* the lookup view of a well-formed store *)
Definition wfl (d : dirst) : Prop :=
  (forall f n, dlookup f d = Some n -> f <> tmp_name ->
     exists u adm content, f = u ++ ext_of adm /\ valid_name u = true /\ len u + 6 <= 255 /\
        n = File content /\ dlookup (u ++ ext_of (negb adm)) d = None) /\
  (dlookup tmp_name d = None \/ dlookup tmp_name d = Some (Dir [])).

Lemma check_some_not_tmp f x : check_user_file f = Some x -> f <> tmp_name.
Proof. intros H E. subst f. rewrite check_user_file_tmp in H. discriminate. Qed.

Lemma wf_store_iff d : wf_store d <-> NoDup (keys d) /\ wfl d.
Proof.
  split.
  - intros (Hnd & Hnames & H3 & H4 & H5). split; [exact Hnd|]. split; [|exact H5].
    intros f n L Hne. apply dlookup_In in L.
    destruct (H3 f n L Hne) as [Hc [content ->]].
    destruct (check_user_file f) as [[u adm]|] eqn:Ec; [|now elim Hc].
    destruct (Hnames f _ u adm L Ec) as [Hv Hl].
    pose proof (H4 f _ u adm L Hne Ec) as Ho.
    apply check_user_file_inv in Ec.
    exists u, adm, content. auto.
  - intros [Hnd [Hent Htmp]]. split; [exact Hnd|]. split; [|split; [|split; [|exact Htmp]]].
    + intros f n u adm Hin Hc.
      pose proof (check_some_not_tmp _ _ Hc) as Hne.
      apply check_user_file_inv in Hc.
      apply (In_dlookup _ _ _ Hnd) in Hin.
      destruct (Hent f n Hin Hne) as (u0 & a0 & c0 & E & Hv0 & Hl0 & _ & _).
      rewrite Hc in E. apply ext_inj in E as [-> _]. auto.
    + intros f n Hin Hne. apply (In_dlookup _ _ _ Hnd) in Hin.
      destruct (Hent f n Hin Hne) as (u0 & a0 & c0 & -> & Hv0 & Hl0 & -> & _).
      split; [|eauto]. rewrite StoreOps_proofs.check_user_file_ext. discriminate.
    + intros f n u adm Hin Hne Hc. apply (In_dlookup _ _ _ Hnd) in Hin.
      apply check_user_file_inv in Hc.
      destruct (Hent f n Hin Hne) as (u0 & a0 & c0 & E & _ & _ & _ & Ho).
      rewrite Hc in E. apply ext_inj in E as [-> ->]. exact Ho.
Qed.

Lemma wfl_write d d' u adm X :
  wfl d -> valid_name u = true -> len u + 6 <= 255 ->
  dlookup (u ++ ext_of (negb adm)) d = None ->
  (forall k, dlookup k d' = if beq k (u ++ ext_of adm) then Some (File X)
                            else if beq k tmp_name then Some (Dir []) else dlookup k d) ->
  wfl d'.
Proof.
  intros [Hent Htmp] Hv Hlen Hother HL. split.
  - intros f n L Hne. rewrite HL in L.
    destruct (beq_spec f (u ++ ext_of adm)) as [->|N1].
    + injection L as <-. exists u, adm, X. repeat (split; [first [reflexivity|assumption]|]).
      rewrite HL.
      destruct (beq_spec (u ++ ext_of (negb adm)) (u ++ ext_of adm)) as [E|_];
        [exfalso; revert E; apply ext_neq'|].
      destruct (beq_spec (u ++ ext_of (negb adm)) tmp_name) as [E|_];
        [exfalso; revert E; apply valid_not_tmp; exact Hv|].
      exact Hother.
    + destruct (beq_spec f tmp_name) as [E|_]; [contradiction|].
      destruct (Hent f n L Hne) as (u0 & a0 & c0 & -> & Hv0 & Hl0 & -> & Ho0).
      exists u0, a0, c0. repeat (split; [first [reflexivity|assumption]|]).
      rewrite HL.
      destruct (beq_spec (u0 ++ ext_of (negb a0)) (u ++ ext_of adm)) as [E|_].
      { exfalso. apply ext_inj in E as [-> <-]. rewrite negb_involutive in Hother. congruence. }
      destruct (beq_spec (u0 ++ ext_of (negb a0)) tmp_name) as [E|_];
        [exfalso; revert E; apply valid_not_tmp; exact Hv0|].
      exact Ho0.
  - right. rewrite HL.
    destruct (beq_spec tmp_name (u ++ ext_of adm)) as [E|_];
      [exfalso; symmetry in E; revert E; apply valid_not_tmp; exact Hv|].
    rewrite beq_refl. reflexivity.
Qed.

Lemma wfl_dremove k d : wfl d -> wfl (dremove k d).
Proof.
  intros [Hent Htmp]. split.
  - intros f n L Hne. rewrite dlookup_dremove in L.
    destruct (beq f k); [discriminate|].
    destruct (Hent f n L Hne) as (u0 & a0 & c0 & -> & Hv0 & Hl0 & -> & Ho0).
    exists u0, a0, c0. repeat (split; [first [reflexivity|assumption]|]).
    rewrite dlookup_dremove, Ho0. now destruct (beq _ k).
  - rewrite dlookup_dremove. destruct (beq tmp_name k); [now left|exact Htmp].
Qed.

Lemma wfl_unlink k d : wfl d -> wfl (unlink k d).
Proof. intros H. destruct (unlink_cases k d) as [-> | ->]; [exact H|now apply wfl_dremove]. Qed.

Lemma wfl_rename d u adm n :
  wfl d -> valid_name u = true -> dlookup (u ++ ext_of (negb adm)) d = Some n ->
  wfl (dset (u ++ ext_of adm) n (dremove (u ++ ext_of (negb adm)) d)).
Proof.
  intros [Hent Htmp] Hv Hn.
  destruct (Hent _ _ Hn (valid_not_tmp u (negb adm) Hv)) as (u1 & a1 & c1 & E1 & Hv1 & Hl1 & -> & Ho1).
  apply ext_inj in E1 as [<- <-]. rewrite negb_involutive in Ho1.
  split.
  - intros f m L Hne. rewrite dlookup_dset, dlookup_dremove in L.
    destruct (beq_spec f (u ++ ext_of adm)) as [->|N1].
    + injection L as <-. exists u, adm, c1. repeat (split; [first [reflexivity|assumption]|]).
      rewrite dlookup_dset, dlookup_dremove.
      destruct (beq_spec (u ++ ext_of (negb adm)) (u ++ ext_of adm)) as [E|_];
        [exfalso; revert E; apply ext_neq'|].
      rewrite beq_refl. reflexivity.
    + destruct (beq_spec f (u ++ ext_of (negb adm))) as [->|N2]; [discriminate|].
      destruct (Hent f m L Hne) as (u0 & a0 & c0 & -> & Hv0 & Hl0 & -> & Ho0).
      exists u0, a0, c0. repeat (split; [first [reflexivity|assumption]|]).
      rewrite dlookup_dset, dlookup_dremove.
      destruct (beq_spec (u0 ++ ext_of (negb a0)) (u ++ ext_of adm)) as [E|_].
      { exfalso. apply ext_inj in E as [-> E]. apply N2. f_equal. f_equal.
        destruct a0, adm; cbn [negb] in E |- *; congruence. }
      rewrite Ho0. now destruct (beq _ _).
  - rewrite dlookup_dset, dlookup_dremove.
    destruct (beq_spec tmp_name (u ++ ext_of adm)) as [E|_];
      [exfalso; symmetry in E; revert E; apply valid_not_tmp; exact Hv|].
    destruct (beq_spec tmp_name (u ++ ext_of (negb adm))) as [E|_];
      [exfalso; symmetry in E; revert E; apply valid_not_tmp; exact Hv|].
    exact Htmp.
Qed.

Lemma user_exists_no d u : user_exists d u = ExNo ->
  len u + 6 <= 255 /\ dlookup (u ++ ext_admin) d = None /\ dlookup (u ++ ext_user) d = None.
Proof.
  unfold user_exists. intros H.
  destruct (stat_file d (u ++ ext_admin)) eqn:Ea; try discriminate.
  destruct (stat_file d (u ++ ext_user)) eqn:Eu; try discriminate.
  split; [|split; apply stat_file_no; assumption].
  unfold stat_file in Ea. destruct (name_max <? len (u ++ ext_admin)) eqn:E; [discriminate|].
  rewrite len_app in E. change (len ext_admin) with 6 in E. unfold name_max in E. lia.
Qed.

Definition has_admin (c : config) (d : dirst) : Prop :=
  exists u content, dlookup (u ++ ext_admin) d = Some (File content) /\
                    u ++ ext_admin <> tmp_name /\ is_supported c content = true.

Lemma wf_spec_valid c d : wf_store d -> has_admin c d -> spec_valid c d.
Proof.
  intros (_ & _ & H3 & H4 & _) Ha. split; [|split; [exact H4|exact Ha]].
  intros f n Hin Hne. apply (H3 f n Hin Hne).
Qed.

Lemma set_admin_ok_shape d u adm d' :
  set_admin d u adm = (d', ROk) ->
  d' = d \/ (valid_name u = true /\ exists n, dlookup (u ++ ext_of (negb adm)) d = Some n /\
             d' = dset (u ++ ext_of adm) n (dremove (u ++ ext_of (negb adm)) d)).
Proof.
  unfold set_admin. intros H.
  destruct (valid_name u) eqn:Hv; cbn [negb] in H; [|discriminate].
  destruct (user_exists d u) as [cur| |]; try discriminate.
  destruct (Bool.eqb cur adm) eqn:Eb.
  - injection H as <-. now left.
  - apply Bool.eqb_false_iff in Eb.
    assert (cur = negb adm) as -> by (destruct adm, cur; cbn [negb]; congruence).
    destruct (dlookup (u ++ ext_of (negb adm)) d) as [n|] eqn:El; [|discriminate].
    destruct (name_max <? len (u ++ ext_of adm)); [discriminate|].
    match type of H with (if ?b then _ else _) = _ => destruct b end; [|discriminate].
    injection H as <-. right. split; [reflexivity|]. exists n. auto.
Qed.

Section Inv.
  Variable kdf : hasher -> bytes -> bytes -> option bytes.
  Hypothesis kdf_out : forall h s p d, kdf h s p = Some d -> bytes_wf d = true /\ d <> [].

  (* ---- write_hash, seen through dlookup ---- *)
  Lemma write_hash_nodup c d u pw adm mc o :
    NoDup (keys d) -> NoDup (keys (fst (write_hash kdf c d u pw adm mc o))).
  Proof.
    intros H. unfold write_hash.
    destruct (cfg_hasher c (default c)) as [h|]; [|exact H].
    destruct (hash_generate kdf h (o_salt o) pw) as [hs|]; [|exact H].
    destruct (dlookup (u ++ ext_of adm) d) as [[old|k]|]; destruct mc; cbn [fst]; try exact H;
      match goal with |- context [match dlookup tmp_name ?x with _ => _ end] =>
        destruct (dlookup tmp_name x) as [[tc|tk]|] end;
      cbn [fst]; repeat first [exact H | apply nodup_dset].
  Qed.

  Lemma write_hash_ok_lk c d u pw adm mc o d' :
    write_hash kdf c d u pw adm mc o = (d', ROk) ->
    u ++ ext_of adm <> tmp_name ->
    (dlookup tmp_name d = None \/ dlookup tmp_name d = Some (Dir [])) ->
    exists h dig oldc,
      cfg_hasher c (default c) = Some h /\ kdf h (o_salt o) pw = Some dig /\
      (if mc then dlookup (u ++ ext_of adm) d = None /\ oldc = []
       else dlookup (u ++ ext_of adm) d = Some (File oldc)) /\
      forall k, dlookup k d' =
        if beq k (u ++ ext_of adm)
        then Some (File (written h (o_ts o) (default c) (o_salt o) dig (after_first_line oldc)))
        else if beq k tmp_name then Some (Dir []) else dlookup k d.
  Proof.
    unfold write_hash. intros H NT Htmp.
    destruct (cfg_hasher c (default c)) as [h|] eqn:Hh; [|discriminate].
    unfold hash_generate in H.
    destruct (kdf h (o_salt o) pw) as [dig|] eqn:K; [|discriminate].
    exists h, dig.
    assert (TF : beq tmp_name (u ++ ext_of adm) = false) by (apply beq_neq; congruence).
    destruct (dlookup (u ++ ext_of adm) d) as [[old|k0]|] eqn:El; destruct mc; try discriminate.
    - exists old. split; [reflexivity|]. split; [exact K|]. split; [reflexivity|].
      destruct Htmp as [T|T]; rewrite T in H; injection H as <-; intros k;
        rewrite !dlookup_dset; destruct (beq k (u ++ ext_of adm)); try reflexivity.
      destruct (beq_spec k tmp_name) as [->|_]; [exact T|reflexivity].
    - exfalso. destruct (dlookup tmp_name d) as [[tc|tk]|]; discriminate.
    - exists []. split; [reflexivity|]. split; [exact K|]. split; [auto|].
      rewrite dlookup_dset, TF in H.
      destruct Htmp as [T|T]; rewrite T in H; injection H as <-; intros k;
        rewrite !dlookup_dset; destruct (beq k (u ++ ext_of adm)); try reflexivity.
      destruct (beq_spec k tmp_name) as [->|_]; [exact T|reflexivity].
  Qed.

  Lemma add_ok_lk c d u pw adm o d' :
    wfl d -> add_user kdf c d u pw adm o = (d', ROk) ->
    valid_name u = true /\ len u + 6 <= 255 /\
    (forall b, dlookup (u ++ ext_of b) d = None) /\
    exists h dig, cfg_hasher c (default c) = Some h /\ kdf h (o_salt o) pw = Some dig /\
      forall k, dlookup k d' =
        if beq k (u ++ ext_of adm)
        then Some (File (written h (o_ts o) (default c) (o_salt o) dig []))
        else if beq k tmp_name then Some (Dir []) else dlookup k d.
  Proof.
    intros [_ Htmp]. unfold add_user. intros H.
    destruct (valid_name u) eqn:Hv; cbn [negb] in H; [|discriminate].
    destruct (user_exists d u) eqn:Ex; try discriminate.
    apply user_exists_no in Ex as (Hlen & Ha & Hu).
    apply write_hash_ok_lk in H as (h & dig & oldc & Hh & K & Hold & HL);
      [| apply valid_not_tmp; exact Hv | exact Htmp].
    cbv iota in Hold. destruct Hold as [_ ->].
    split; [reflexivity|]. split; [exact Hlen|]. split; [intros []; assumption|].
    exists h, dig. auto.
  Qed.

  Lemma update_ok_lk c d u pw o d' :
    wfl d -> update_user kdf c d u pw o = (d', ROk) ->
    exists adm old h dig,
      valid_name u = true /\ len u + 6 <= 255 /\
      dlookup (u ++ ext_of adm) d = Some (File old) /\ is_supported c old = true /\
      dlookup (u ++ ext_of (negb adm)) d = None /\
      cfg_hasher c (default c) = Some h /\ kdf h (o_salt o) pw = Some dig /\
      forall k, dlookup k d' =
        if beq k (u ++ ext_of adm)
        then Some (File (written h (o_ts o) (default c) (o_salt o) dig (after_first_line old)))
        else if beq k tmp_name then Some (Dir []) else dlookup k d.
  Proof.
    intros [Hent Htmp]. unfold update_user. intros H.
    destruct (valid_name u) eqn:Hv; cbn [negb] in H; [|discriminate].
    destruct (user_exists d u) as [adm| |] eqn:Ex; try discriminate.
    unfold read_file in H.
    destruct (dlookup (u ++ ext_of adm) d) as [[content|k0]|] eqn:El; try discriminate.
    destruct (is_supported c content) eqn:Hs; [|discriminate].
    apply write_hash_ok_lk in H as (h & dig & oldc & Hh & K & Hold & HL);
      [| apply valid_not_tmp; exact Hv | exact Htmp].
    cbv iota in Hold. rewrite El in Hold. injection Hold as <-.
    destruct (Hent _ _ El (valid_not_tmp u adm Hv)) as (u1 & a1 & c1 & E1 & Hv1 & Hl1 & _ & Ho1).
    apply ext_inj in E1 as [<- <-].
    exists adm, content, h, dig. auto 10.
  Qed.

  Lemma add_nodup c d u pw adm o :
    NoDup (keys d) -> NoDup (keys (fst (add_user kdf c d u pw adm o))).
  Proof.
    intros H. unfold add_user. destruct (negb (valid_name u)); [exact H|].
    destruct (user_exists d u); try exact H. now apply write_hash_nodup.
  Qed.

  Lemma update_nodup c d u pw o :
    NoDup (keys d) -> NoDup (keys (fst (update_user kdf c d u pw o))).
  Proof.
    intros H. unfold update_user. destruct (negb (valid_name u)); [exact H|].
    destruct (user_exists d u) as [adm| |]; try exact H.
    destruct (read_file d (u ++ ext_of adm)) as [ct|]; [|exact H].
    destruct (is_supported c ct); [|exact H]. now apply write_hash_nodup.
  Qed.

  Lemma wfs_add c d u pw adm o :
    NoDup (keys d) -> wfl d ->
    NoDup (keys (fst (add_user kdf c d u pw adm o))) /\ wfl (fst (add_user kdf c d u pw adm o)).
  Proof.
    intros Hnd Hw. split; [now apply add_nodup|].
    destruct (add_user kdf c d u pw adm o) as [d' r] eqn:E. cbn [fst]. destruct r.
    - destruct (add_ok_lk _ _ _ _ _ _ _ Hw E) as (Hv & Hl & Hnone & h & dig & _ & _ & HL).
      eapply wfl_write; eauto.
    - apply failed_add_unchanged in E. now subst.
  Qed.

  Lemma wfs_update c d u pw o :
    NoDup (keys d) -> wfl d ->
    NoDup (keys (fst (update_user kdf c d u pw o))) /\ wfl (fst (update_user kdf c d u pw o)).
  Proof.
    intros Hnd Hw. split; [now apply update_nodup|].
    destruct (update_user kdf c d u pw o) as [d' r] eqn:E. cbn [fst]. destruct r.
    - destruct (update_ok_lk _ _ _ _ _ _ Hw E)
        as (adm & old & h & dig & Hv & Hl & _ & _ & Hnone & _ & _ & HL).
      eapply wfl_write; eauto.
    - apply failed_update_unchanged in E. now subst.
  Qed.

  Lemma wfs_set_admin d u adm :
    NoDup (keys d) -> wfl d ->
    NoDup (keys (fst (set_admin d u adm))) /\ wfl (fst (set_admin d u adm)).
  Proof.
    intros Hnd Hw.
    destruct (set_admin d u adm) as [d' r] eqn:E. cbn [fst]. destruct r.
    - apply set_admin_ok_shape in E as [->|(Hv & n & Hn & ->)]; [auto|]. split.
      + now apply nodup_dset, nodup_dremove.
      + now apply wfl_rename.
    - apply failed_set_admin_unchanged in E. subst. auto.
  Qed.

  Lemma wfs_remove d u :
    NoDup (keys d) -> wfl d -> NoDup (keys (remove_user d u)) /\ wfl (remove_user d u).
  Proof.
    intros Hnd Hw. unfold remove_user. destruct (negb (valid_name u)); [auto|]. split.
    - now apply nodup_unlink, nodup_unlink.
    - now apply wfl_unlink, wfl_unlink.
  Qed.

  Lemma wfs_init c d u pw o :
    NoDup (keys d) -> wfl d ->
    NoDup (keys (fst (init_store kdf c d u pw o))) /\ wfl (fst (init_store kdf c d u pw o)).
  Proof.
    intros Hnd Hw. unfold init_store. destruct (dir_empty d); [now apply wfs_add|auto].
  Qed.

  Lemma dir_of_step c d o orc :
    dir_of (step kdf c d o orc) =
    match o with
    | OpAdd u pw adm => fst (add_user kdf c d u pw adm orc)
    | OpUpdate u pw => fst (update_user kdf c d u pw orc)
    | OpSetAdmin u adm => fst (set_admin d u adm)
    | OpRemove u => remove_user d u
    | OpInit u pw => fst (init_store kdf c d u pw orc)
    | _ => d
    end.
  Proof.
    unfold dir_of. destruct o; cbn [step]; try reflexivity;
      match goal with |- context [let (_, _) := ?x in _] => destruct x end; reflexivity.
  Qed.

  Lemma cfg_of_step c d o orc :
    cfg_of (step kdf c d o orc) =
    match o with
    | OpSetDefault id => {| params := params c; default := id |}
    | _ => c
    end.
  Proof.
    unfold cfg_of. destruct o; cbn [step]; try reflexivity;
      match goal with |- context [let (_, _) := ?x in _] => destruct x end; reflexivity.
  Qed.

  (* never two files for one user, work area empty after each completed
     operation - whatever the operation and whether it succeeds or fails *)
  Theorem step_preserves_wf c d o orc :
    wf_store d -> wf_store (dir_of (step kdf c d o orc)).
  Proof.
    rewrite !wf_store_iff. intros [Hnd Hw]. rewrite dir_of_step.
    destruct o; auto using wfs_add, wfs_update, wfs_set_admin, wfs_remove, wfs_init.
  Qed.


  Lemma supported_written c h o pw dig tail :
    cfg_wf c -> oracle_ok o -> cfg_hasher c (default c) = Some h ->
    kdf h (o_salt o) pw = Some dig ->
    is_supported c (written h (o_ts o) (default c) (o_salt o) dig tail) = true.
  Proof.
    intros Hc (Ots & Ows & Ons) Hh K. destruct (kdf_out _ _ _ _ K) as [Wd Nd].
    unfold is_supported.
    rewrite (is_supported_written c h (o_ts o) (default c) (o_salt o) dig tail); auto.
    eapply cfg_default_bound; eauto.
  Qed.

  Lemma tmp_not_ext u b : tmp_name <> u ++ ext_of b.
  Proof.
    intros E. pose proof (StoreOps_proofs.check_user_file_ext u b) as H.
    rewrite <- E, check_user_file_tmp in H. discriminate.
  Qed.

  (* an administrator other than the one acted upon survives a write *)
  Lemma has_admin_write c d d' f X :
    has_admin c d ->
    (forall k, dlookup k d' = if beq k f then Some (File X)
                              else if beq k tmp_name then Some (Dir []) else dlookup k d) ->
    (dlookup f d = None \/ is_supported c X = true) ->
    has_admin c d'.
  Proof.
    intros (u0 & c0 & L0 & T0 & S0) HL Hcase.
    destruct (beq_spec (u0 ++ ext_admin) f) as [E|NE].
    - destruct Hcase as [Hn|Hs]; [congruence|].
      exists u0, X. split; [|auto]. rewrite HL.
      destruct (beq_spec (u0 ++ ext_admin) f); [reflexivity|contradiction].
    - exists u0, c0. split; [|auto]. rewrite HL.
      destruct (beq_spec (u0 ++ ext_admin) f); [contradiction|].
      destruct (beq_spec (u0 ++ ext_admin) tmp_name); [contradiction|exact L0].
  Qed.

  Lemma has_admin_add c d u pw adm o :
    wfl d -> has_admin c d -> has_admin c (fst (add_user kdf c d u pw adm o)).
  Proof.
    intros Hw Ha. destruct (add_user kdf c d u pw adm o) as [d' r] eqn:E. cbn [fst]. destruct r.
    - destruct (add_ok_lk _ _ _ _ _ _ _ Hw E) as (Hv & Hl & Hnone & h & dig & _ & _ & HL).
      eapply has_admin_write; eauto.
    - apply failed_add_unchanged in E. now subst.
  Qed.

  Lemma has_admin_other d d' c u :
    (forall u0, u0 <> u -> dlookup (u0 ++ ext_admin) d' = dlookup (u0 ++ ext_admin) d) ->
    (exists u0 content, u0 <> u /\ dlookup (u0 ++ ext_admin) d = Some (File content) /\
                        is_supported c content = true) ->
    has_admin c d'.
  Proof.
    intros HL (u0 & c0 & Hne & L0 & S0). exists u0, c0. split; [|split; [|exact S0]].
    - rewrite HL by exact Hne. exact L0.
    - intros E. symmetry in E. revert E. apply (tmp_not_ext u0 true).
  Qed.

  Lemma rename_other d u adm n u0 :
    u0 <> u ->
    dlookup (u0 ++ ext_admin) (dset (u ++ ext_of adm) n (dremove (u ++ ext_of (negb adm)) d))
    = dlookup (u0 ++ ext_admin) d.
  Proof.
    intros Hne. rewrite dlookup_dset, dlookup_dremove.
    change ext_admin with (ext_of true).
    destruct (beq_spec (u0 ++ ext_of true) (u ++ ext_of adm)) as [E|_];
      [apply ext_inj in E as [E _]; contradiction|].
    destruct (beq_spec (u0 ++ ext_of true) (u ++ ext_of (negb adm))) as [E|_];
      [apply ext_inj in E as [E _]; contradiction|reflexivity].
  Qed.

  Lemma remove_other d u u0 :
    u0 <> u -> dlookup (u0 ++ ext_admin) (remove_user d u) = dlookup (u0 ++ ext_admin) d.
  Proof.
    intros Hne. unfold remove_user. destruct (negb (valid_name u)); [reflexivity|].
    change ext_admin with (ext_of true). change ext_user with (ext_of false).
    rewrite !dlookup_unlink_ne; [reflexivity| |];
      intros E; apply ext_inj in E as [E _]; contradiction.
  Qed.

  Lemma step_cfg_wf c d o orc : cfg_wf c -> cfg_wf (cfg_of (step kdf c d o orc)).
  Proof. intros H. rewrite cfg_of_step. destruct o; exact H. Qed.

  (* validity is kept by every operation that does not remove or demote the
     last administrator *)
  Theorem step_preserves_valid c d o orc :
    cfg_wf c -> oracle_ok orc -> wf_store d -> spec_valid c d ->
    (forall u, o = OpRemove u \/ o = OpSetAdmin u false ->
       exists u0 content, u0 <> u /\ dlookup (u0 ++ ext_admin) d = Some (File content) /\
                          is_supported c content = true) ->
    spec_valid (cfg_of (step kdf c d o orc)) (dir_of (step kdf c d o orc)).
  Proof.
    intros Hc Ho Hwf Hv Hsafe.
    apply wf_spec_valid; [now apply step_preserves_wf|].
    apply wf_store_iff in Hwf as [Hnd Hw].
    assert (Ha : has_admin c d) by exact (proj2 (proj2 Hv)).
    rewrite cfg_of_step, dir_of_step.
    destruct o as [u pw adm|u pw|u adm|u|u pw|u|u pw| | | |id]; try exact Ha.
    - now apply has_admin_add.
    - destruct (update_user kdf c d u pw orc) as [d' r] eqn:E. cbn [fst]. destruct r.
      + destruct (update_ok_lk _ _ _ _ _ _ Hw E)
          as (adm & old & h & dig & Hvu & Hl & _ & _ & Hnone & Hh & K & HL).
        eapply has_admin_write; [exact Ha|exact HL|]. right.
        eapply supported_written; eauto.
      + apply failed_update_unchanged in E. now subst.
    - destruct (set_admin d u adm) as [d' r] eqn:E. cbn [fst]. destruct r.
      + apply set_admin_ok_shape in E as [->|(Hvu & n & Hn & ->)]; [exact Ha|].
        apply (has_admin_other d _ c u); [intros u0 Hne; now apply rename_other|].
        destruct adm.
        * destruct Ha as (u0 & c0 & L0 & T0 & S0). exists u0, c0. split; [|auto].
          intros ->. cbn [negb] in Hn.
          destruct Hw as [Hent _].
          destruct (Hent _ _ Hn (valid_not_tmp u false Hvu))
            as (u1 & a1 & c1 & E1 & _ & _ & _ & Ho1).
          apply ext_inj in E1 as [<- <-]. cbn [negb ext_of] in Ho1. congruence.
        * apply (Hsafe u). now right.
      + apply failed_set_admin_unchanged in E. now subst.
    - apply (has_admin_other d _ c u); [intros u0 Hne; now apply remove_other|].
      apply (Hsafe u). now left.
    - unfold init_store. destruct (dir_empty d); [now apply has_admin_add|exact Ha].
  Qed.

  (* ... for every history *)
  Fixpoint safe_history (c : config) (d : dirst) (hs : hist) : Prop :=
    match hs with
    | [] => True
    | (o, orc) :: r =>
        oracle_ok orc /\
        (forall u, o = OpRemove u \/ o = OpSetAdmin u false ->
           exists u0 content, u0 <> u /\ dlookup (u0 ++ ext_admin) d = Some (File content) /\
                              is_supported c content = true) /\
        safe_history (cfg_of (step kdf c d o orc)) (dir_of (step kdf c d o orc)) r
    end.

  Theorem history_preserves_valid hs : forall c d,
    cfg_wf c -> wf_store d -> spec_valid c d -> safe_history c d hs ->
    let '(c', d') := run kdf c d hs in
    wf_store d' /\ spec_valid c' d'.
  Proof.
    induction hs as [|[o orc] r IH]; intros c d Hc Hwf Hv Hs.
    - cbn [run]. auto.
    - cbn [run]. cbn [safe_history] in Hs. destruct Hs as (Ho & Hsafe & Hr).
      pose proof (step_cfg_wf c d o orc Hc) as Hc'.
      pose proof (step_preserves_wf c d o orc Hwf) as Hwf'.
      pose proof (step_preserves_valid c d o orc Hc Ho Hwf Hv Hsafe) as Hv'.
      destruct (step kdf c d o orc) as [[c1 d1] ob].
      unfold cfg_of, dir_of in *. cbn [fst snd] in *.
      apply IH; assumption.
  Qed.

  (* initialisation of an empty directory produces a valid store *)
  Theorem init_produces_valid c u pw o d' :
    cfg_wf c -> oracle_ok o ->
    init_store kdf c [] u pw o = (d', ROk) -> wf_store d' /\ spec_valid c d'.
  Proof.
    intros Hc Ho H.
    assert (Hw0 : wfl []).
    { split; [intros f n L; discriminate L|now left]. }
    assert (Hwf : wf_store d').
    { apply wf_store_iff.
      destruct (wfs_init c [] u pw o (NoDup_nil _) Hw0) as [H1 H2].
      rewrite H in H1, H2. auto. }
    split; [exact Hwf|]. apply wf_spec_valid; [exact Hwf|].
    unfold init_store in H. cbn [dir_empty] in H.
    destruct (add_ok_lk _ _ _ _ _ _ _ Hw0 H) as (Hv & Hl & Hnone & h & dig & Hh & K & HL).
    exists u, (written h (o_ts o) (default c) (o_salt o) dig []). split; [|split].
    - rewrite HL. change ext_admin with (ext_of true). now rewrite beq_refl.
    - apply (valid_not_tmp u true Hv).
    - eapply supported_written; eauto.
  Qed.


  Lemma user_exists_ext d d' u :
    (forall b, dlookup (u ++ ext_of b) d = None <-> dlookup (u ++ ext_of b) d' = None) ->
    user_exists d' u = user_exists d u.
  Proof.
    intros H. pose proof (H true) as [A1 A2]. pose proof (H false) as [B1 B2].
    cbn [ext_of] in A1, A2, B1, B2.
    unfold user_exists, stat_file.
    destruct (name_max <? len (u ++ ext_admin)); [reflexivity|].
    destruct (dlookup (u ++ ext_admin) d) as [x|] eqn:E1;
      destruct (dlookup (u ++ ext_admin) d') as [x'|] eqn:E2; try reflexivity;
      try (exfalso; specialize (A1 eq_refl); discriminate);
      try (exfalso; specialize (A2 eq_refl); discriminate).
    destruct (name_max <? len (u ++ ext_user)); [reflexivity|].
    destruct (dlookup (u ++ ext_user) d) as [y|] eqn:E3;
      destruct (dlookup (u ++ ext_user) d') as [y'|] eqn:E4; try reflexivity;
      try (exfalso; specialize (B1 eq_refl); discriminate);
      try (exfalso; specialize (B2 eq_refl); discriminate).
  Qed.

  Lemma update_succeeds c d u pw o adm old h dig :
    valid_name u = true -> user_exists d u = ExYes adm ->
    dlookup (u ++ ext_of adm) d = Some (File old) -> is_supported c old = true ->
    cfg_hasher c (default c) = Some h -> kdf h (o_salt o) pw = Some dig ->
    (forall x, dlookup tmp_name d <> Some (File x)) ->
    exists d2, (forall f, f <> tmp_name -> dlookup f d2 = dlookup f d) /\
      update_user kdf c d u pw o =
      (dset (u ++ ext_of adm)
            (File (written h (o_ts o) (default c) (o_salt o) dig (after_first_line old))) d2, ROk).
  Proof.
    intros Hv Ex El Hs Hh K Htmp.
    unfold update_user. rewrite Hv, Ex. cbn [negb]. unfold read_file. rewrite El, Hs.
    unfold write_hash. rewrite Hh. unfold hash_generate. rewrite K, El.
    destruct (dlookup tmp_name d) as [[x|k]|] eqn:T.
    - exfalso. now apply (Htmp x).
    - exists d. split; [reflexivity|reflexivity].
    - exists (dset tmp_name (Dir []) d). split; [|reflexivity].
      intros f Hf. rewrite dlookup_dset. destruct (beq_spec f tmp_name); [contradiction|reflexivity].
  Qed.

  (* ---------------- C12: one hash upgrade ---------------- *)
  (* An upgrade is an update with the login password.  If the login succeeded
     with an upgradeable hash and the record is a supported one, the rewrite
     succeeds (given a usable default set), the user then authenticates with
     the same password, is no longer upgradeable, keeps the admin flag and the
     auxiliary data, and nobody else is touched. *)
  Theorem upgrade_step c d u pw o adm ts h dig :
    cfg_wf c -> oracle_ok o -> NoDup (keys d) -> default c <= max_u64 ->
    (forall x, dlookup tmp_name d <> Some (File x)) ->
    authenticate kdf c d u pw = OAuth true adm true ts ->
    (exists old, read_file d (u ++ ext_of adm) = Some old /\ is_supported c old = true) ->
    cfg_hasher c (default c) = Some h -> kdf h (o_salt o) pw = Some dig ->
    exists d' old,
      update_user kdf c d u pw o = (d', ROk) /\
      authenticate kdf c d' u pw = OAuth true adm false (o_ts o) /\
      read_file d (u ++ ext_of adm) = Some old /\
      (exists new, read_file d' (u ++ ext_of adm) = Some new /\ after_first_line new = after_first_line old) /\
      (forall f, f <> u ++ ext_of adm -> f <> tmp_name -> dlookup f d' = dlookup f d).
  Proof.
    intros Hc (Ots & Ows & Ons) Hnd Hdef Htmp Hauth (old & Hold & Hsup) Hh K.
    destruct (kdf_out _ _ _ _ K) as [Wd Nd].
    unfold authenticate in Hauth.
    destruct (valid_name u) eqn:Hv; cbn [negb] in Hauth; [|discriminate].
    destruct (user_exists d u) as [adm0| |] eqn:Ex; try discriminate.
    destruct (read_file d (u ++ ext_of adm0)) as [content|] eqn:Hr; [|discriminate].
    destruct (auth_content kdf c content pw) as [upg ts0|] eqn:Ha; [|discriminate].
    assert (adm0 = adm) as -> by congruence.
    assert (El : dlookup (u ++ ext_of adm) d = Some (File old)).
    { unfold read_file in Hold. destruct (dlookup (u ++ ext_of adm) d) as [[oc|k]|]; congruence. }
    destruct (update_succeeds c d u pw o adm old h dig Hv Ex El Hsup Hh K Htmp) as (d2 & Hd2 & Hup).
    set (new := written h (o_ts o) (default c) (o_salt o) dig (after_first_line old)) in *.
    assert (HL : forall f, dlookup f (dset (u ++ ext_of adm) (File new) d2) =
                           if beq f (u ++ ext_of adm) then Some (File new)
                           else if beq f tmp_name then dlookup f d2 else dlookup f d).
    { intros f. rewrite dlookup_dset. destruct (beq f (u ++ ext_of adm)); [reflexivity|].
      destruct (beq_spec f tmp_name) as [->|Hne]; [reflexivity|now apply Hd2]. }
    exists (dset (u ++ ext_of adm) (File new) d2), old.
    split; [exact Hup|]. split; [|split; [exact Hold|split]].
    - unfold authenticate. rewrite Hv. cbn [negb].
      rewrite (user_exists_ext d _ u), Ex.
      + unfold read_file. rewrite HL, beq_refl. unfold new.
        rewrite (auth_content_written kdf c h (o_ts o) (default c) (o_salt o) dig _ pw
                   Ots Hdef Hh Ows Wd).
        rewrite K, beq_refl, N.eqb_refl. reflexivity.
      + intros b. rewrite HL.
        destruct (beq_spec (u ++ ext_of b) (u ++ ext_of adm)) as [E|NE].
        * rewrite E, El. split; discriminate.
        * destruct (beq_spec (u ++ ext_of b) tmp_name) as [E|_];
            [exfalso; revert E; apply valid_not_tmp; exact Hv|reflexivity].
    - exists new. split.
      + unfold read_file. rewrite HL, beq_refl. reflexivity.
      + unfold new. apply after_first_line_written; assumption.
    - intros f Hf Ht. rewrite HL.
      destruct (beq_spec f (u ++ ext_of adm)); [contradiction|].
      destruct (beq_spec f tmp_name); [contradiction|reflexivity].
  Qed.

  (* a failed login never rewrites anything; neither does any login when the
     store itself is used without an upgrader *)
  Theorem authenticate_is_read_only c d u pw orc :
    dir_of (step kdf c d (OpAuth u pw) orc) = d.
  Proof. reflexivity. Qed.
End Inv.
