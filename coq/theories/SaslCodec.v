(* SaslCodec.v — model of sasl/sasl_encoding.go.

   encoders        : Request.Encode / Response.Encode / encodeLengthEncodedStrings
   split           : scanLengthEncodedString (the bufio.SplitFunc)
   scan_one / decode_events
                   : control flow of bufio.Scanner.Scan over its *pending
                     bytes* plus decodeLengthEncodedStrings' loop.  Buffer
                     indices, compaction and growth are abstracted away:
                     with max+2 pending bytes [split] never answers "need
                     more", so ErrTooLong (64 KiB) is unreachable
                     (SaslCodec_proofs.split_decides).
   parse_parts     : the *specification* of the wire format as a plain
                     recursive parser of a byte string (no reader, no EOF).

   [max] is MaxRequestLength; Properties/*.v instantiate it with
   Extracted.max_request_length. *)
From Whawty Require Import Bytes.
Open Scope N_scope.

Definition be16 (n : N) : bytes := [n / 256; n mod 256].
Definition enc_part (p : bytes) : bytes := be16 (len p) ++ p.

(* encodeLengthEncodedStrings: parts are written one by one; a part longer
   than 65535 aborts (earlier parts have already been written). *)
Fixpoint encode_parts (ps : list bytes) : option bytes :=
  match ps with
  | [] => Some []
  | p :: r => if 65535 <? len p then None
              else match encode_parts r with
                   | Some w => Some (enc_part p ++ w)
                   | None => None
                   end
  end.

Record request := { login : bytes; password : bytes; service : bytes; realm : bytes }.

Definition req_fields (r : request) : list bytes :=
  [login r; password r; service r; realm r].

Definition encode_request (max : N) (r : request) : option bytes :=
  if existsb (fun f => max <? len f) (req_fields r) then None
  else encode_parts (req_fields r).

Definition response_text (ok : bool) (msg : bytes) : bytes :=
  (if ok then str "OK" else str "NO") ++
  (match msg with [] => [] | _ => 32 :: msg end).

Definition encode_response (ok : bool) (msg : bytes) : option bytes :=
  encode_parts [response_text ok msg].

(* ---------------- the split function ---------------- *)
Inductive sres :=
| Tok (adv : nat) (tok : bytes)
| SErr
| More   (* (0, nil, nil): need more data, or nothing left at EOF *).

Definition split (max : N) (data : bytes) (atEOF : bool) : sres :=
  match data with
  | [] => More                       (* atEOF && len==0 -> no more data; !atEOF -> need more *)
  | [_] => if atEOF then SErr else More
  | a :: b :: rest =>
      let l := a * 256 + b in
      if max <? l then SErr
      else if l =? 0 then Tok 2 [a; b]
      else if len rest <? l then (if atEOF then SErr else More)
      else Tok (2 + N.to_nat l) (firstn (2 + N.to_nat l) data)
  end.

(* ---------------- reader events ---------------- *)
Inductive rstatus := Cont | EofS | ErrS.
(* one Read call: the bytes it returned and its error value *)
Definition ev := (bytes * rstatus)%type.

Definition max_empty_reads : nat := 100.

Inductive scan_res :=
| STok (tok : bytes) (pend : bytes) (st : rstatus) (rest : list ev)
| SFail                     (* split error *)
| SEnd (st : rstatus)       (* Scan returned false, Err() is: nil for EofS, non-nil for ErrS *)
| SBlocked                  (* reader has nothing more yet: the real code is blocked in Read *).

Definition scan_final (max : N) (pend : bytes) (st : rstatus) (rest : list ev) : scan_res :=
  match split max pend true with
  | Tok adv tok => STok tok (skipn adv pend) st rest
  | SErr => SFail
  | More => SEnd st
  end.

(* status Cont: try the pending bytes, otherwise read *)
Fixpoint scan_cont (max : N) (pend : bytes) (empties : nat) (evs : list ev) : scan_res :=
  match split max pend false with
  | Tok adv tok => STok tok (skipn adv pend) Cont evs
  | SErr => SFail
  | More =>
      match evs with
      | [] => SBlocked
      | (d, Cont) :: evs' =>
          match d with
          | [] => if Nat.leb max_empty_reads empties
                  then scan_final max pend ErrS evs'      (* io.ErrNoProgress *)
                  else scan_cont max pend (S empties) evs'
          | _ => scan_cont max (pend ++ d) O evs'
          end
      | (d, st) :: evs' => scan_final max (pend ++ d) st evs'
      end
  end.

Definition scan_one (max : N) (pend : bytes) (st : rstatus) (evs : list ev) : scan_res :=
  match st with
  | Cont => scan_cont max pend O evs
  | _ => scan_final max pend st evs
  end.

Inductive dres :=
| DOk (parts : list bytes)
| DErr
| DBlocked.

(* decodeLengthEncodedStrings(reader, parts) with len(parts) = n >= 1 *)
Fixpoint decode_events (max : N) (n : nat) (pend : bytes) (st : rstatus) (evs : list ev)
  : dres :=
  match n with
  | O => DOk []
  | S n' =>
      match scan_one max pend st evs with
      | STok tok pend' st' evs' =>
          match n' with
          | O => (* i >= len(parts): break, then scanner.Err() *)
              match st' with ErrS => DErr | _ => DOk [skipn 2 tok] end
          | _ => match decode_events max n' pend' st' evs' with
                 | DOk ps => DOk (skipn 2 tok :: ps)
                 | r => r
                 end
          end
      | SFail => DErr
      | SEnd _ => DErr          (* Err() non-nil, or "too few parts" *)
      | SBlocked => DBlocked
      end
  end.

(* ---------------- specification of the format ---------------- *)
Inductive pres :=
| POk (parts : list bytes) (consumed : nat)
| PBad            (* a length prefix exceeds max *)
| PShort          (* the string ends before n parts are complete *).

Fixpoint parse_parts (max : N) (n : nat) (s : bytes) : pres :=
  match n with
  | O => POk [] O
  | S n' =>
      match s with
      | a :: b :: rest =>
          let l := a * 256 + b in
          if max <? l then PBad
          else if len rest <? l then PShort
          else match parse_parts max n' (skipn (N.to_nat l) rest) with
               | POk ps k => POk (firstn (N.to_nat l) rest :: ps) (2 + N.to_nat l + k)
               | r => r
               end
      | _ => PShort
      end
  end.

(* the bytes a reader delivers before it terminates, and whether it does *)
Fixpoint stream (evs : list ev) : bytes * bool :=
  match evs with
  | [] => ([], false)
  | (d, Cont) :: r => let (s, t) := stream r in (d ++ s, t)
  | (d, _) :: _ => (d, true)
  end.

(* well-behaved reader (boolean): no error other than EOF, never more than
   [max_empty_reads] consecutive (0, nil) results *)
Fixpoint wbb (e : nat) (evs : list ev) : bool :=
  match evs with
  | [] => true
  | (d, Cont) :: r => match d with
                      | [] => Nat.ltb e max_empty_reads && wbb (S e) r
                      | _ => wbb O r
                      end
  | (_, EofS) :: _ => true
  | (_, ErrS) :: _ => false
  end.

Definition alldata (evs : list ev) : bytes := concat (map fst evs).

(* ---------------- Request / Response decode ---------------- *)
Inductive rq_res := RqOk (r : request) | RqErr | RqBlocked.

Definition request_of_parts (ps : list bytes) : rq_res :=
  match ps with
  | [l; p; s; r] =>
      match l, p with
      | [], _ => RqErr        (* empty login is not allowed *)
      | _, [] => RqErr        (* empty password is not allowed *)
      | _, _ => RqOk {| login := l; password := p; service := s; realm := r |}
      end
  | _ => RqErr
  end.

Definition decode_request_events (max : N) (evs : list ev) : rq_res :=
  match decode_events max 4 [] Cont evs with
  | DOk ps => request_of_parts ps
  | DErr => RqErr
  | DBlocked => RqBlocked
  end.

Definition decode_request_bytes (max : N) (s : bytes) : rq_res :=
  decode_request_events max [(s, EofS)].

Inductive rs_res := RsOk (ok : bool) (msg : bytes) | RsErr | RsBlocked.

(* Response.Decode on a fresh Response{false, ""} as sasl.Client.Auth uses it *)
Definition response_of_part (p : bytes) : rs_res :=
  match p with
  | a :: b :: rest =>
      if (a =? 79) && (b =? 75) then RsOk true (skipn 1 rest)        (* "OK" *)
      else if (a =? 78) && (b =? 79) then RsOk false (skipn 1 rest)  (* "NO" *)
      else RsErr
  | _ => RsErr
  end.

Definition decode_response_events (max : N) (evs : list ev) : rs_res :=
  match decode_events max 1 [] Cont evs with
  | DOk [p] => response_of_part p
  | DOk _ => RsErr
  | DErr => RsErr
  | DBlocked => RsBlocked
  end.

Definition decode_response_bytes (max : N) (s : bytes) : rs_res :=
  decode_response_events max [(s, EofS)].
