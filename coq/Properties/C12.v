(* C12 — hash upgrades preserve the password, converge, and can be switched
   off.  Statements only; proofs in theories/StoreOps_proofs.v and
   StoreInv_proofs.v.  (The agent-level clauses - when an upgrade is queued,
   that it re-authenticates - are decided by the agent model, see C11.) *)
From Whawty Require Import Bytes Names Record Store StoreOps_proofs Store_proofs StoreInv_proofs.
Open Scope N_scope.

(* reported upgradeable exactly when the record's parameter set differs from the default *)
Theorem C12_upgradeable_iff : forall kdf c content pw upg ts,
  auth_content kdf c content pw = AuthOk upg ts ->
  exists r, parse_record content = Some r /\ (upg = true <-> r_pid r <> default c).
Proof. exact upgradeable_iff. Qed.
Print Assumptions C12_upgradeable_iff.

Section C12.
  Variable kdf : hasher -> bytes -> bytes -> option bytes.
  Hypothesis kdf_out : forall h s p d, kdf h s p = Some d -> bytes_wf d = true /\ d <> [].

  (* one upgrade = an update with the login password: it succeeds, the same
     password then authenticates, the hash is no longer upgradeable, admin
     flag and auxiliary data are kept, nobody else is touched *)
  Theorem C12_upgrade_step : forall c d u pw o adm ts h dig,
    cfg_wf c -> oracle_ok o -> NoDup (keys d) -> default c <= max_u64 ->
    (forall x, dlookup tmp_name d <> Some (File x)) ->
    authenticate kdf c d u pw = OAuth true adm true ts ->
    (exists old, read_file d (u ++ ext_of adm) = Some old /\ is_supported c old = true) ->
    cfg_hasher c (default c) = Some h -> kdf h (o_salt o) pw = Some dig ->
    exists d' old,
      update_user kdf c d u pw o = (d', ROk) /\
      authenticate kdf c d' u pw = OAuth true adm false (o_ts o) /\
      read_file d (u ++ ext_of adm) = Some old /\
      (exists new, read_file d' (u ++ ext_of adm) = Some new /\ after_first_line new = after_first_line old) /\
      (forall f, f <> u ++ ext_of adm -> f <> tmp_name -> dlookup f d' = dlookup f d).
  Proof. exact (upgrade_step kdf kdf_out). Qed.

  (* authentication by itself never modifies the store (upgrades disabled:
     nothing else happens; a failed login: nothing is queued) *)
  Theorem C12_authenticate_is_read_only : forall c d u pw orc,
    dir_of (step kdf c d (OpAuth u pw) orc) = d.
  Proof. exact (authenticate_is_read_only kdf). Qed.
End C12.
Print Assumptions C12_upgrade_step.
Print Assumptions C12_authenticate_is_read_only.

(* ---- the model's state space is the code's declared state ----
   (theories/StateInst.v: package-level variables and struct fields listed by tools/facts on every
   run; the models keep no state between operations other than these components) *)
From Whawty Require StateInst.
Theorem C12_agent_state_inventory : StateInst.agent_state_inventory.
Proof. exact StateInst.agent_state_inventory_holds. Qed.
