(* C20 — the PAM module succeeds only on an explicit OK from the agent.
   Statements only; proofs in theories/Pam_proofs.v (and C13 for the request
   encoding).  Memory safety of the C code is observed with ASan/UBSan by the
   check, not proved. *)
From Whawty Require Import Bytes SaslCodec Pam Pam_proofs C13_proofs Extracted.
Open Scope N_scope.

Notation pmax := Extracted.pam_max_partlen.
Lemma pmax_ok : 2 <= pmax. Proof. vm_compute. discriminate. Qed.

Theorem C20_success_only_on_ok : forall o user pw sv req,
  pam_check pmax o user pw sv = (PAM_SUCCESS, req) ->
  sv_connect sv = true /\
  exists a b resp tail,
    sent (sv_chunks sv) = a :: b :: resp ++ tail /\
    length resp = N.to_nat (N.min (a * 256 + b) pmax) /\
    starts_with_ok resp = true /\ 2 <= a * 256 + b.
Proof. exact (success_only_on_ok pmax pmax_ok). Qed.
Print Assumptions C20_success_only_on_ok.

Theorem C20_request_on_wire : forall o user pw sv code req,
  pam_check pmax o user pw sv = (code, req) -> sv_connect sv = true ->
  req = enc_part (pam_clip pmax user) ++ enc_part (pam_clip pmax pw) ++ enc_part [] ++ enc_part [].
Proof. exact (request_on_wire pmax). Qed.
Print Assumptions C20_request_on_wire.

(* ... which is exactly what the Go encoder produces for those fields *)
Theorem C20_request_is_go_encoding : forall u p,
  encode_request Extracted.max_request_length
    {| login := pam_clip pmax u; password := pam_clip pmax p; service := []; realm := [] |}
  = Some (pam_request pmax u p).
Proof. exact C13_pam_equals_go_proof. Qed.
Print Assumptions C20_request_is_go_encoding.

Theorem C20_unreachable_fails : forall o user pw sv,
  sv_connect sv = false -> fst (pam_check pmax o user pw sv) = PAM_AUTHINFO_UNAVAIL.
Proof. exact (unreachable_fails pmax). Qed.

Theorem C20_short_reply_fails : forall o user pw sv,
  sv_connect sv = true ->
  (forall a b rest, sent (sv_chunks sv) = a :: b :: rest ->
                    (length rest < N.to_nat (N.min (a * 256 + b) pmax))%nat) ->
  fst (pam_check pmax o user pw sv) = PAM_AUTHINFO_UNAVAIL.
Proof. exact (short_reply_fails pmax). Qed.
Print Assumptions C20_short_reply_fails.

Theorem C20_silent_server_fails : forall o user pw d b r,
  po_timeout o * 1000 <= d ->
  fst (pam_check pmax o user pw {| sv_connect := true; sv_chunks := (d, b) :: r |}) = PAM_AUTHINFO_UNAVAIL.
Proof. exact (silent_server_fails pmax pmax_ok). Qed.
Print Assumptions C20_silent_server_fails.

Theorem C20_negative_reply_fails : forall o user pw sv a b resp tail,
  sv_connect sv = true ->
  sent (sv_chunks sv) = a :: b :: resp ++ tail ->
  length resp = N.to_nat (N.min (a * 256 + b) pmax) ->
  starts_with_ok resp = false ->
  fst (pam_check pmax o user pw sv) <> PAM_SUCCESS.
Proof. exact (negative_reply_fails pmax pmax_ok). Qed.
Print Assumptions C20_negative_reply_fails.

Theorem C20_no_password_fails : forall tmo0 args user sv,
  fst (pam_authenticate pmax tmo0 args user None None sv) = PAM_AUTHTOK_RECOVERY_ERR.
Proof. exact (no_password_fails pmax). Qed.

Theorem C20_only_first_part_matters : forall o user pw a b resp tail1 tail2,
  length resp = N.to_nat (N.min (a * 256 + b) pmax) ->
  fst (pam_check pmax o user pw {| sv_connect := true; sv_chunks := [(0, a :: b :: resp ++ tail1)] |}) =
  fst (pam_check pmax o user pw {| sv_connect := true; sv_chunks := [(0, a :: b :: resp ++ tail2)] |}).
Proof. exact (only_first_part_matters pmax pmax_ok). Qed.
Print Assumptions C20_only_first_part_matters.

(* bounded time: every wait is shorter than the timeout and hands over at
   least one byte, so reading the reply takes at most 2 + pmax waits *)
Theorem C20_bounded_waits : forall tmo need cs got rest,
  Forall (fun c => snd c <> []) cs ->
  read_n tmo need cs = Some (got, rest) ->
  (length cs - length rest <= need)%nat.
Proof. exact read_n_bounded. Qed.
Print Assumptions C20_bounded_waits.

Example C20_nonvacuous :
  pam_authenticate pmax Extracted.pam_default_timeout [str "try_first_pass"] (str "alice") None (Some (str "pw"))
    {| sv_connect := true; sv_chunks := [(10, [0]); (2000, [5; 79; 75; 32; 104; 105])] |}
  = (PAM_SUCCESS, [0; 5] ++ str "alice" ++ [0; 2] ++ str "pw" ++ [0; 0; 0; 0]).
Proof. vm_compute. reflexivity. Qed.
