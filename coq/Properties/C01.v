(* C01 — the password verdict tracks the last acknowledged write, for every
   history.  Statements only; proofs in theories/Store_proofs.v.

   The cryptographic primitives are parameters; what is assumed about them
   appears as explicit premises of every theorem:
     kdf_fail_iff : a parameter set either always errs or never does,
     kdf_out      : digests are non-empty byte strings,
     kdf_inj      : no collisions beyond the schema's own key equivalence,
     kdf_resp     : equivalent keys give equal digests (PBKDF2-HMAC). *)
From Whawty Require Import Bytes Names Record Store StoreSpec Store_proofs StoreTrace C01t_proofs.
Open Scope N_scope.

Section C01.
  Variable kdf : hasher -> bytes -> bytes -> option bytes.
  Variable sha256 : bytes -> bytes.
  Variable kdf_fails : hasher -> bool.
  Hypothesis kdf_fail_iff : forall h s p, kdf h s p = None <-> kdf_fails h = true.
  Hypothesis kdf_out : forall h s p d, kdf h s p = Some d -> bytes_wf d = true /\ d <> [].
  Hypothesis kdf_inj : forall h s p q d,
      kdf h s p = Some d -> kdf h s q = Some d -> keyeq sha256 h p q = true.
  Hypothesis kdf_resp : forall h s p q, keyeq sha256 h p q = true -> kdf h s p = kdf h s q.

  (* every visible result of every operation of every history equals the one
     the abstract map user -> (password, admin, last-change, parameter set)
     prescribes *)
  Theorem C01_store_refines_spec : forall (hs : hist) (c : config),
    cfg_wf c -> Forall oracle_ok (map snd hs) ->
    trace kdf c [] hs = strace sha256 kdf_fails c [] hs.
  Proof. exact (store_refines_spec kdf sha256 kdf_fails kdf_fail_iff kdf_out kdf_inj kdf_resp). Qed.

  (* after any history, for ANY user and password *)
  Theorem C01_auth_iff : forall (hs : hist) (c : config) (u p : bytes),
    cfg_wf c -> Forall oracle_ok (map snd hs) ->
    let '(c1, d1) := run kdf c [] hs in
    let '(c2, a) := srun kdf_fails c [] hs in
    c1 = c2 /\
    authenticate kdf c1 d1 u p = obs_of_sauth (spec_auth sha256 kdf_fails c1 a u p) /\
    (valid_name u = true -> user_exists d1 u =
       match spec_exists a u with Some adm => ExYes adm | None => if name_fits u then ExNo else ExErr end).
  Proof. exact (auth_after_history kdf sha256 kdf_fails kdf_fail_iff kdf_out kdf_inj kdf_resp). Qed.

  Theorem C01_list_agrees : forall (hs : hist) (c : config),
    cfg_wf c -> Forall oracle_ok (map snd hs) ->
    let '(c1, d1) := run kdf c [] hs in
    let '(_, a) := srun kdf_fails c [] hs in
    exists l, list_users c1 d1 [] = Some l /\
      forall u ui, alookup u l = Some ui <->
        exists cr, alookup u a = Some cr /\ ui = {| ui_admin := a_admin cr; ui_ts := a_ts cr |}.
  Proof. exact (list_after_history kdf sha256 kdf_fails kdf_fail_iff kdf_out kdf_inj kdf_resp). Qed.

  (* argon2id: any password other than the exact bytes is refused *)
  Theorem C01_near_miss_argon2id : forall (hs : hist) (c : config) (u p : bytes) cr t m th l,
    cfg_wf c -> Forall oracle_ok (map snd hs) ->
    let '(c1, d1) := run kdf c [] hs in
    let '(_, a) := srun kdf_fails c [] hs in
    alookup u a = Some cr -> cfg_hasher c1 (a_pid cr) = Some (HArgon t m th l) ->
    p <> a_pw cr ->
    authenticate kdf c1 d1 u p = OAuth false false false 0%Z.
  Proof. exact (near_miss_argon kdf sha256 kdf_fails kdf_fail_iff kdf_out kdf_inj kdf_resp). Qed.
End C01.
Print Assumptions C01_store_refines_spec.
Print Assumptions C01_auth_iff.
Print Assumptions C01_list_agrees.
Print Assumptions C01_near_miss_argon2id.

(* At system-call level (StoreTrace.v): an ACKNOWLEDGED add / update is effective whatever single
   I/O error was injected on the way ([ft : option fault], None = undisturbed): the password just
   set authenticates against the resulting directory, with the admin flag asked for (add) or the
   user's existing one (update), not upgradeable, last change = the time stamp written.  The
   four side conditions of the sharper versions in C01t_proofs are each necessary
   (C01t_proofs.Necessity). *)
Theorem C01_acked_add_effective_under_any_fault : forall kdf ft c d u pw adm o s,
  cfg_wf c -> oracle_ok o ->
  (forall h s p dg, kdf h s p = Some dg -> bytes_wf dg = true) ->
  p_add kdf ft c d u pw adm o = (ROk, s) ->
  exists ts, authenticate kdf c (t_dir s) u pw = OAuth true adm false ts.
Proof. exact acked_add_authenticates_wf. Qed.
Theorem C01_acked_update_effective_under_any_fault : forall kdf ft c d u pw o s,
  cfg_wf c -> oracle_ok o ->
  (forall h s p dg, kdf h s p = Some dg -> bytes_wf dg = true) ->
  p_update kdf ft c d u pw o = (ROk, s) ->
  exists adm ts, authenticate kdf c (t_dir s) u pw = OAuth true adm false ts.
Proof. exact acked_update_authenticates_wf. Qed.
Print Assumptions C01_acked_add_effective_under_any_fault.
Print Assumptions C01_acked_update_effective_under_any_fault.

(* the only passwords not told apart under hmac_sha256_scrypt *)
Theorem C01_keyeq_scrypt_short : forall sha256 k cst r pp p q,
  len p <= 64 -> len q <= 64 ->
  (keyeq sha256 (HScrypt k cst r pp) p q = true <-> strip0 p = strip0 q).
Proof. exact keyeq_scrypt_short. Qed.
Print Assumptions C01_keyeq_scrypt_short.

Theorem C01_keyeq_scrypt_long : forall sha256 k cst r pp p,
  64 < len p -> len (sha256 p) <= 64 ->
  keyeq sha256 (HScrypt k cst r pp) p (sha256 p) = true.
Proof. exact keyeq_scrypt_long. Qed.
Print Assumptions C01_keyeq_scrypt_long.

Theorem C01_keyeq_argon2id : forall sha256 t m th l p q,
  keyeq sha256 (HArgon t m th l) p q = true <-> p = q.
Proof. exact keyeq_argon. Qed.
Print Assumptions C01_keyeq_argon2id.

Theorem C01_strip0_trailing_nuls : forall p q,
  strip0 p = strip0 q <-> exists n m, p ++ repeat_byte 0 n = q ++ repeat_byte 0 m.
Proof. exact strip0_no_trailing_zero. Qed.
Print Assumptions C01_strip0_trailing_nuls.

(* non-vacuity: a concrete history with three users and two parameter sets,
   evaluated with a toy injective kdf: the premises are satisfiable and the
   verdicts are the expected ones *)
Definition toy_kdf (h : hasher) (s p : bytes) : option bytes :=
  Some (1 :: match h with HArgon t _ _ _ => t | HScrypt _ c _ _ => 100 + c end :: p ++ 255 :: s).
Definition toy_cfg : config := {| params := [(1, HArgon 1 8 1 16); (2, HArgon 2 8 1 32)]; default := 1 |}.
Definition orc (t : Z) (s : bytes) : oracle := {| o_ts := t; o_salt := s; o_tmp := []; o_order := [] |}.
Definition toy_hist : hist :=
  [ (OpInit (str "root") (str "r00t"), orc 100 [1; 1]);
    (OpAdd (str "alice") (str "secret") false, orc 101 [2; 2]);
    (OpAdd (str "bob") (str "secret") false, orc 102 [3; 3]);
    (OpSetDefault 2, orc 0 [9]);
    (OpUpdate (str "alice") (str "Secret"), orc 103 [4; 4]);
    (OpAdd (str "alice") (str "again") true, orc 104 [5; 5]);
    (OpSetAdmin (str "bob") true, orc 0 [9]);
    (OpRemove (str "root"), orc 0 [9]);
    (OpAuth (str "alice") (str "secret"), orc 0 [9]);
    (OpAuth (str "alice") (str "Secret"), orc 0 [9]);
    (OpAuth (str "bob") (str "secret"), orc 0 [9]);
    (OpAuth (str "root") (str "r00t"), orc 0 [9]) ].
Example C01_nonvacuous :
  cfg_wf toy_cfg /\ Forall oracle_ok (map snd toy_hist) /\
  skipn 8 (trace toy_kdf toy_cfg [] toy_hist) =
    [ Some (OAuth false false false 0%Z);
      Some (OAuth true false false 103%Z);
      Some (OAuth true true true 102%Z);
      Some (OAuth false false false 0%Z) ].
Proof.
  split; [|split].
  - intros id h H. cbn in H. destruct H as [H|[H|[]]]; injection H as <- _; vm_compute; discriminate.
  - repeat constructor; vm_compute; try discriminate; auto; try (split; discriminate).
  - vm_compute. reflexivity.
Qed.

(* ---- the model's state space is the code's declared state ----
   (theories/StateInst.v: package-level variables and struct fields listed by tools/facts on every
   run; the models keep no state between operations other than these components) *)
From Whawty Require StateInst.
Theorem C01_store_state_inventory : StateInst.store_state_inventory.
Proof. exact StateInst.store_state_inventory_holds. Qed.
