(* C13 — saslauthd wire codec: exact format, lossless round trip,
   fragment-independent.  Only statements closed by [exact]; the proofs are
   in theories/SaslCodec_proofs.v and theories/C13_proofs.v. *)
From Whawty Require Import Bytes SaslCodec SaslCodec_proofs Pam C13_proofs Extracted.
Open Scope N_scope.

Notation max := Extracted.max_request_length.

(* --- exact format --- *)
Theorem C13_format_exact_request : forall r,
  encode_request max r =
  if fields_ok max r then Some (concat (map enc_part (req_fields r))) else None.
Proof. exact C13_format_exact_request_proof. Qed.
Print Assumptions C13_format_exact_request.

Theorem C13_format_exact_response : forall ok msg,
  len msg <= 65532 ->
  encode_response ok msg =
  Some (enc_part ((if ok then str "OK" else str "NO") ++
                  match msg with [] => [] | _ => 32 :: msg end)).
Proof. exact C13_format_exact_response_proof. Qed.
Print Assumptions C13_format_exact_response.

(* --- lossless round trip, whatever follows on the stream and however it is
       fragmented (every well-behaved reader delivering encode r ++ tail) --- *)
Theorem C13_roundtrip_request : forall r w tail evs,
  encode_request max r = Some w -> login r <> [] -> password r <> [] ->
  wb O evs -> fst (stream evs) = w ++ tail ->
  decode_request_events max evs = RqOk r.
Proof. exact C13_roundtrip_request_proof. Qed.
Print Assumptions C13_roundtrip_request.

Theorem C13_empty_credentials_refused : forall r w tail evs,
  encode_request max r = Some w -> (login r = [] \/ password r = []) ->
  wb O evs -> fst (stream evs) = w ++ tail ->
  decode_request_events max evs = RqErr.
Proof. exact C13_empty_credentials_refused_proof. Qed.
Print Assumptions C13_empty_credentials_refused.

Theorem C13_roundtrip_response : forall ok msg w tail evs,
  len msg + 3 <= max ->
  encode_response ok msg = Some w ->
  wb O evs -> fst (stream evs) = w ++ tail ->
  decode_response_events max evs = RsOk ok msg.
Proof. exact C13_roundtrip_response_proof. Qed.
Print Assumptions C13_roundtrip_response.

(* --- over-limit fields are refused by encoder and decoder --- *)
Theorem C13_overlimit_encoder : forall r,
  fields_ok max r = false -> encode_request max r = None.
Proof. exact C13_overlimit_encoder_proof. Qed.
Print Assumptions C13_overlimit_encoder.

Theorem C13_overlimit_decoder : forall n evs ps,
  decode_events max n [] Cont evs = DOk ps ->
  forallb (fun f => len f <=? max) ps = true.
Proof. exact C13_overlimit_decoder_proof. Qed.
Print Assumptions C13_overlimit_decoder.

Theorem C13_overlimit_prefix_refused : forall n evs,
  (0 < n)%nat -> wb O evs -> parse_parts max n (fst (stream evs)) = PBad ->
  decode_events max n [] Cont evs = DErr.
Proof. exact C13_overlimit_prefix_refused_proof. Qed.
Print Assumptions C13_overlimit_prefix_refused.

(* --- a decoded request re-encodes to exactly the bytes consumed --- *)
Theorem C13_reencode_consumed : forall evs r,
  bytes_wf (alldata evs) = true ->
  decode_request_events max evs = RqOk r ->
  exists w k, encode_request max r = Some w /\ w = firstn k (alldata evs).
Proof. exact C13_reencode_consumed_proof. Qed.
Print Assumptions C13_reencode_consumed.

(* --- the result depends only on the byte stream --- *)
Theorem C13_fragment_independent : forall n evs,
  (0 < n)%nat -> wb O evs ->
  decode_events max n [] Cont evs =
  spec_res max n (fst (stream evs)) (snd (stream evs)).
Proof. exact C13_fragment_independent_proof. Qed.
Print Assumptions C13_fragment_independent.

Theorem C13_fragment_independent_pair : forall n evs1 evs2,
  (0 < n)%nat -> wb O evs1 -> wb O evs2 -> stream evs1 = stream evs2 ->
  decode_events max n [] Cont evs1 = decode_events max n [] Cont evs2.
Proof. exact C13_fragment_independent_pair_proof. Qed.
Print Assumptions C13_fragment_independent_pair.

(* early decision: a stream whose prefix already decodes is decoded the same
   way whatever follows and whether or not the reader ever terminates *)
Theorem C13_early_decision : forall n s e ps k,
  parse_parts max n s = POk ps k -> parse_parts max n (s ++ e) = POk ps k.
Proof. exact C13_early_decision_proof. Qed.
Print Assumptions C13_early_decision.

(* --- the PAM module's encoder produces the Go encoder's bytes --- *)
Theorem C13_pam_limits_agree : Extracted.pam_max_partlen = Extracted.max_request_length.
Proof. exact C13_pam_limits_agree_proof. Qed.

Theorem C13_pam_equals_go : forall u p,
  encode_request max {| login := pam_clip Extracted.pam_max_partlen u;
                        password := pam_clip Extracted.pam_max_partlen p;
                        service := []; realm := [] |}
  = Some (pam_request Extracted.pam_max_partlen u p).
Proof. exact C13_pam_equals_go_proof. Qed.
Print Assumptions C13_pam_equals_go.

(* --- non-vacuity: concrete, non-trivial instances of the premises --- *)
Example C13_nonvacuous_roundtrip :
  let r := {| login := str "alice"; password := [0; 255; 58; 10]; service := str "imap"; realm := [] |} in
  exists w, encode_request max r = Some w /\
    wb O [(firstn 3 w, Cont); ([], Cont); (skipn 3 w ++ str "junk", EofS)] /\
    decode_request_events max [(firstn 3 w, Cont); ([], Cont); (skipn 3 w ++ str "junk", EofS)] = RqOk r.
Proof.
  eexists. split; [vm_compute; reflexivity|].
  split; [apply wbb_wb; vm_compute; reflexivity | vm_compute; reflexivity].
Qed.

(* ---- the model's state space is the code's declared state ----
   (theories/StateInst.v: package-level variables and struct fields listed by tools/facts on every
   run; the models keep no state between operations other than these components) *)
From Whawty Require StateInst.
Theorem C13_sasl_state_inventory : StateInst.sasl_state_inventory.
Proof. exact StateInst.sasl_state_inventory_holds. Qed.
