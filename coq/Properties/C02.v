(* C02 — malformed, unsupported or tampered hash files never authenticate.
   Statements only; proofs in theories/Record_proofs.v, StoreOps_proofs.v.
   [kdf] is universally quantified: nothing is assumed about the key
   derivation functions here. *)
From Whawty Require Import Bytes Base64 Names Record Record_proofs Store StoreOps_proofs.
Open Scope N_scope.

(* Whatever bytes the file contains: success only for a schema record of a
   configured parameter set whose stored digest is the recomputed one. *)
Theorem C02_auth_only_if : forall kdf (c : config) (content pw : bytes) upg ts,
  auth_content kdf c content pw = AuthOk upg ts ->
  exists alg pid s64 d64 h salt dig,
    record_line (first_line content) alg ts pid s64 d64 /\
    cfg_hasher c pid = Some h /\ fmt_of h = alg /\
    url_dec s64 = Some salt /\ url_dec d64 = Some dig /\
    kdf h salt pw = Some dig /\
    upg = negb (default c =? pid).
Proof. exact auth_content_sound. Qed.
Print Assumptions C02_auth_only_if.

(* the whole digest is compared: another length never authenticates *)
Theorem C02_digest_full_length : forall kdf (c : config) (content pw : bytes) r h salt dig d',
  parse_record content = Some r -> cfg_hasher c (r_pid r) = Some h ->
  decode_hash (r_hash r) = Some (salt, dig) -> kdf h salt pw = Some d' ->
  length dig <> length d' ->
  auth_content kdf c content pw = AuthNo.
Proof. exact auth_content_full_length. Qed.
Print Assumptions C02_digest_full_length.

Theorem C02_needs_four_fields : forall kdf (c : config) (content pw : bytes),
  (length (splitN colon 4 (first_line content)) < 4)%nat ->
  auth_content kdf c content pw = AuthNo.
Proof. exact auth_content_needs_four_fields. Qed.
Print Assumptions C02_needs_four_fields.

(* a user whose only file is unsupported: hidden from list, shown unsupported
   by list-full, blocks add, update refused and everything byte-identical,
   remove deletes it *)
Theorem C02_unsupported_hidden : forall c d u adm content l,
  NoDup (keys d) -> sole_file d u adm content -> is_supported c content = false ->
  list_users c d [] = Some l -> alookup u l = None.
Proof. exact unsupported_hidden_from_list. Qed.
Print Assumptions C02_unsupported_hidden.

Theorem C02_unsupported_list_full : forall c d u adm content l,
  NoDup (keys d) -> sole_file d u adm content -> is_supported c content = false ->
  list_full c d [] = Some l ->
  exists e, alookup u l = Some e /\ uf_supported e = false /\ uf_admin e = adm.
Proof. exact unsupported_shown_by_list_full. Qed.
Print Assumptions C02_unsupported_list_full.

Theorem C02_add_already_exists : forall kdf c d u adm content pw adm' o,
  sole_file d u adm content -> add_user kdf c d u pw adm' o = (d, RErr).
Proof. exact existing_file_blocks_add. Qed.
Print Assumptions C02_add_already_exists.

Theorem C02_update_refused_identical : forall kdf c d u adm content pw o,
  sole_file d u adm content -> is_supported c content = false ->
  update_user kdf c d u pw o = (d, RErr).
Proof. exact unsupported_update_refused. Qed.
Print Assumptions C02_update_refused_identical.

Theorem C02_remove_deletes : forall d u adm content,
  NoDup (keys d) -> sole_file d u adm content ->
  dlookup (u ++ ext_admin) (remove_user d u) = None /\
  dlookup (u ++ ext_user) (remove_user d u) = None /\
  (forall f, f <> u ++ ext_admin -> f <> u ++ ext_user ->
             dlookup f (remove_user d u) = dlookup f d).
Proof. exact remove_deletes. Qed.
Print Assumptions C02_remove_deletes.

(* conversely: a record written by an independent implementation of the
   schema (canonical numbers, LF or CRLF or no line end, any auxiliary data)
   authenticates with its password *)
Theorem C02_foreign_record : forall kdf c h ts pid salt pw dig eol tail,
  (- (max_i64 + 1) <= ts <= max_i64)%Z -> pid <= max_u64 ->
  cfg_hasher c pid = Some h -> bytes_wf salt = true ->
  kdf h salt pw = Some dig -> bytes_wf dig = true ->
  (eol = [lf] \/ eol = [13; lf] \/ (eol = [] /\ tail = [])) ->
  auth_content kdf c (fmt_of h ++ colon :: dec_Z ts ++ colon :: dec_N pid ++ colon ::
                      url_enc salt ++ colon :: url_enc dig ++ eol ++ tail) pw
  = AuthOk (negb (default c =? pid)) ts.
Proof. exact foreign_record_authenticates. Qed.
Print Assumptions C02_foreign_record.

(* non-vacuity: a concrete record that does authenticate, and a one-byte
   truncation of it that does not *)
Definition toy_kdf (h : hasher) (s p : bytes) : option bytes := Some (7 :: p ++ s).
Definition toy_cfg : config := {| params := [(3, HArgon 1 8 1 16)]; default := 3 |}.
Example C02_nonvacuous :
  let content := written (HArgon 1 8 1 16) 1700000000%Z 3 [1; 2; 3] (7 :: str "pw" ++ [1; 2; 3]) (str "totp: x") in
  auth_content toy_kdf toy_cfg content (str "pw") = AuthOk false 1700000000%Z /\
  auth_content toy_kdf toy_cfg (firstn (length content - 9) content) (str "pw") = AuthNo /\
  auth_content toy_kdf toy_cfg content (str "pW") = AuthNo.
Proof. vm_compute. auto. Qed.

(* ---- the model's state space is the code's declared state ----
   (theories/StateInst.v: package-level variables and struct fields listed by tools/facts on every
   run; the models keep no state between operations other than these components) *)
From Whawty Require StateInst.
Theorem C02_store_state_inventory : StateInst.store_state_inventory.
Proof. exact StateInst.store_state_inventory_holds. Qed.
