(* C06 — Web API: management actions require the right session or password.
   Statements only; proofs in theories/WebApi_proofs.v.  [kdf] arbitrary; the
   session layer is the ideal-AEAD log of Session.v (see C07). *)
From Whawty Require Import Bytes Names Record Store Session WebApi WebApi_proofs Extracted.
Open Scope N_scope.

Notation life_ms := Extracted.session_lifetime_ms.

Theorem C06_malformed_refused : forall kdf s ep o,
  handle kdf life_ms s ep None o = (resp 400, s).
Proof. intros kdf. exact (malformed_refused kdf life_ms). Qed.

(* every unauthorised request: non-success status, no list, no session, and
   the whole state (store, configuration, sessions) exactly as before *)
Theorem C06_unauthorised_refused : forall kdf s ep b o,
  authorised kdf life_ms s ep b o = false ->
  exists st, handle kdf life_ms s ep (Some b) o = (resp st, s) /\ st <> 200.
Proof. intros kdf. exact (unauthorised_refused kdf life_ms). Qed.
Print Assumptions C06_unauthorised_refused.

Theorem C06_empty_field_refused : forall kdf s ep b o,
  has_empty_field ep b = true -> handle kdf life_ms s ep (Some b) o = (resp 400, s).
Proof. intros kdf. exact (empty_field_refused kdf life_ms). Qed.
Print Assumptions C06_empty_field_refused.

Theorem C06_effect_only_if_authorised : forall kdf s ep bd o rp s',
  handle kdf life_ms s ep bd o = (rp, s') -> w_dir s' <> w_dir s ->
  exists b, bd = Some b /\ authorised kdf life_ms s ep b o = true /\ has_empty_field ep b = false.
Proof. intros kdf. exact (effect_only_if_authorised kdf life_ms). Qed.
Print Assumptions C06_effect_only_if_authorised.

Theorem C06_list_only_to_admin : forall kdf s ep bd o rp s',
  handle kdf life_ms s ep bd o = (rp, s') -> r_list rp = true ->
  exists b u, bd = Some b /\ (ep = EList \/ ep = EListFull) /\
              check (w_log s) (session_life_ns life_ms) (wo_now_ns o) (b_session b) = Accept u true.
Proof. intros kdf. exact (list_only_to_admin kdf life_ms). Qed.
Print Assumptions C06_list_only_to_admin.

(* the effect of an authorised request is exactly the store operation *)
Theorem C06_add_effect : forall kdf s b o rp s',
  handle kdf life_ms s EAdd (Some b) o = (rp, s') -> r_status rp = 200 ->
  (w_dir s', ROk) = add_user kdf (w_cfg s) (w_dir s) (b_username b) (b_password b) (b_admin b) (wo_store o) /\
  w_cfg s' = w_cfg s /\ w_log s' = w_log s.
Proof. intros kdf. exact (add_effect kdf life_ms). Qed.
Theorem C06_update_effect : forall kdf s b o rp s',
  handle kdf life_ms s EUpdate (Some b) o = (rp, s') -> w_dir s' <> w_dir s ->
  (w_dir s', ROk) = update_user kdf (w_cfg s) (w_dir s) (b_username b) (b_new b) (wo_store o) /\
  w_cfg s' = w_cfg s /\ w_log s' = w_log s.
Proof. intros kdf. exact (update_effect kdf life_ms). Qed.
Theorem C06_remove_effect : forall kdf s b o rp s',
  handle kdf life_ms s ERemove (Some b) o = (rp, s') -> r_status rp = 200 ->
  w_dir s' = remove_user (w_dir s) (b_username b) /\ w_cfg s' = w_cfg s /\ w_log s' = w_log s.
Proof. intros kdf. exact (remove_effect kdf life_ms). Qed.
Theorem C06_set_admin_effect : forall kdf s b o rp s',
  handle kdf life_ms s ESetAdmin (Some b) o = (rp, s') -> r_status rp = 200 ->
  (w_dir s', ROk) = set_admin (w_dir s) (b_username b) (b_admin b) /\ w_cfg s' = w_cfg s /\ w_log s' = w_log s.
Proof. intros kdf. exact (set_admin_effect kdf life_ms). Qed.
Print Assumptions C06_update_effect.

Theorem C06_failure_unchanged : forall kdf s ep bd o rp s',
  handle kdf life_ms s ep bd o = (rp, s') -> r_status rp <> 200 ->
  w_dir s' = w_dir s /\ w_cfg s' = w_cfg s /\ w_log s' = w_log s.
Proof. intros kdf. exact (failure_unchanged kdf life_ms). Qed.
Print Assumptions C06_failure_unchanged.

(* a session token is issued only in response to a successful password
   authentication and names that user and the admin status of that record *)
Theorem C06_token_only_after_password : forall kdf s ep bd o rp s',
  handle kdf life_ms s ep bd o = (rp, s') -> (w_log s' <> w_log s \/ r_session rp <> None) ->
  ep = EAuth /\
  exists b adm, bd = Some b /\ store_auth kdf s (b_username b) (b_password b) = Some adm /\
    w_log s' = w_log s ++ [{| s_nonce := wo_nonce o; s_ct := wo_ct o;
                              s_pt := format_token (b_username b) adm (wo_now_s o) |}] /\
    r_session rp = Some (token_text (wo_nonce o) (wo_ct o)) /\ w_dir s' = w_dir s.
Proof. intros kdf. exact (token_only_after_password kdf life_ms). Qed.
Print Assumptions C06_token_only_after_password.

(* closed under arbitrary request sequences *)
Theorem C06_log_grows_only_by_authentication : forall kdf rs s rps s',
  run_web kdf life_ms s rs = (rps, s') ->
  forall e, In e (w_log s') -> In e (w_log s) \/
    exists b o adm t, In (EAuth, Some b, o) rs /\
      e = {| s_nonce := wo_nonce o; s_ct := wo_ct o; s_pt := format_token (b_username b) adm t |}.
Proof. intros kdf. exact (log_grows_only_by_authentication kdf life_ms). Qed.
Theorem C06_unauthorised_run_changes_nothing : forall kdf rs s rps s',
  (forall ep b o, In (ep, Some b, o) rs -> authorised kdf life_ms s ep b o = false) ->
  run_web kdf life_ms s rs = (rps, s') ->
  s' = s /\ Forall (fun rp => r_status rp <> 200 /\ r_list rp = false /\ r_session rp = None) rps.
Proof. intros kdf. exact (unauthorised_run_changes_nothing kdf life_ms). Qed.
Print Assumptions C06_log_grows_only_by_authentication.
Print Assumptions C06_unauthorised_run_changes_nothing.

(* non-vacuity: a concrete instance of the handler on a two-user store in which the premises of the
   theorems above are met: an admin session adds a user (the store changes), the same request under
   an ordinary user's session is refused with the state untouched, and an expired admin session is
   not authorisation *)
Definition ex_kdf (h : hasher) (salt pw : bytes) : option bytes := Some (salt ++ pw).
Definition ex_cfg : config := {| params := [(1, HArgon 1 8 1 32)]; default := 1 |}.
Definition ex_or (ts : Z) : oracle := {| o_ts := ts; o_salt := repeat_byte 5 16; o_tmp := []; o_order := [] |}.
Definition ex_dir : dirst :=
  fst (add_user ex_kdf ex_cfg (fst (add_user ex_kdf ex_cfg [] (str "root") (str "rootpw") true (ex_or 1600000000)))
                (str "alice") (str "alicepw") false (ex_or 1600000001)).
Definition ex_wo (now_s : Z) (nonce : bytes) : woracle :=
  {| wo_store := ex_or 1700000000; wo_now_ns := (now_s * 1000000000)%Z; wo_now_s := now_s;
     wo_nonce := nonce; wo_ct := nonce ++ [1] |}.
Definition ex_s0 : wstate := {| w_cfg := ex_cfg; w_dir := ex_dir; w_log := [] |}.
Definition ex_login (s : wstate) (u p : bytes) (now : Z) (nonce : bytes) :=
  handle ex_kdf life_ms s EAuth
    (Some {| b_session := []; b_username := u; b_password := p; b_old := []; b_new := []; b_admin := false |})
    (ex_wo now nonce).
Definition ex_tok (r : wresp * wstate) : bytes := match r_session (fst r) with Some t => t | None => [] end.
Definition ex_s1 := snd (ex_login ex_s0 (str "root") (str "rootpw") 1700000000 (repeat_byte 7 12)).
Definition ex_admin_tok := ex_tok (ex_login ex_s0 (str "root") (str "rootpw") 1700000000 (repeat_byte 7 12)).
Definition ex_s2 := snd (ex_login ex_s1 (str "alice") (str "alicepw") 1700000001 (repeat_byte 8 12)).
Definition ex_user_tok := ex_tok (ex_login ex_s1 (str "alice") (str "alicepw") 1700000001 (repeat_byte 8 12)).
Definition ex_add (tok : bytes) : body :=
  {| b_session := tok; b_username := str "bob"; b_password := str "bobpw"; b_old := []; b_new := []; b_admin := false |}.

Example C06_nonvacuous :
  (* an admin session: authorised, 200, the store gains bob *)
  authorised ex_kdf life_ms ex_s2 EAdd (ex_add ex_admin_tok) (ex_wo 1700000100 []) = true /\
  r_status (fst (handle ex_kdf life_ms ex_s2 EAdd (Some (ex_add ex_admin_tok)) (ex_wo 1700000100 []))) = 200 /\
  w_dir (snd (handle ex_kdf life_ms ex_s2 EAdd (Some (ex_add ex_admin_tok)) (ex_wo 1700000100 []))) <> w_dir ex_s2 /\
  (* an ordinary user's session: not authorised, 403, nothing changes *)
  authorised ex_kdf life_ms ex_s2 EAdd (ex_add ex_user_tok) (ex_wo 1700000100 []) = false /\
  handle ex_kdf life_ms ex_s2 EAdd (Some (ex_add ex_user_tok)) (ex_wo 1700000100 []) = (resp 403, ex_s2) /\
  (* the same admin token after its lifetime: 401, nothing changes *)
  handle ex_kdf life_ms ex_s2 EAdd (Some (ex_add ex_admin_tok)) (ex_wo 1700000700 []) = (resp 401, ex_s2) /\
  (* alice may change her own password with her session but not root's *)
  authorised ex_kdf life_ms ex_s2 EUpdate
    {| b_session := ex_user_tok; b_username := str "alice"; b_password := []; b_old := []; b_new := str "n"; b_admin := false |}
    (ex_wo 1700000100 []) = true /\
  authorised ex_kdf life_ms ex_s2 EUpdate
    {| b_session := ex_user_tok; b_username := str "root"; b_password := []; b_old := []; b_new := str "n"; b_admin := false |}
    (ex_wo 1700000100 []) = false.
Proof. vm_compute. repeat split; try reflexivity; discriminate. Qed.

(* ---- the model's state space is the code's declared state ----
   (theories/StateInst.v: package-level variables and struct fields listed by tools/facts on every
   run; the models keep no state between operations other than these components) *)
From Whawty Require StateInst.
Theorem C06_agent_state_inventory : StateInst.agent_state_inventory.
Proof. exact StateInst.agent_state_inventory_holds. Qed.
Theorem C06_session_state_inventory : StateInst.session_state_inventory.
Proof. exact StateInst.session_state_inventory_holds. Qed.
