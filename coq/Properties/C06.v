(* C06 — Web API: management actions require the right session or password.
   Statements only; proofs in theories/WebApi_proofs.v.  [kdf] arbitrary; the
   session layer is the ideal-AEAD log of Session.v (see C07). *)
From Whawty Require Import Bytes Names Record Store Session WebApi WebApi_proofs Extracted.
Open Scope N_scope.

Notation life_ms := Extracted.session_lifetime_ms.

Theorem C06_malformed_refused : forall kdf s ep o,
  handle kdf life_ms s ep None o = (resp 400, s).
Proof. intros kdf. exact (malformed_refused kdf life_ms). Qed.

(* every unauthorised request: non-success status, no list, no session, and
   the whole state (store, configuration, sessions) exactly as before *)
Theorem C06_unauthorised_refused : forall kdf s ep b o,
  authorised kdf life_ms s ep b o = false ->
  exists st, handle kdf life_ms s ep (Some b) o = (resp st, s) /\ st <> 200.
Proof. intros kdf. exact (unauthorised_refused kdf life_ms). Qed.
Print Assumptions C06_unauthorised_refused.

Theorem C06_empty_field_refused : forall kdf s ep b o,
  has_empty_field ep b = true -> handle kdf life_ms s ep (Some b) o = (resp 400, s).
Proof. intros kdf. exact (empty_field_refused kdf life_ms). Qed.
Print Assumptions C06_empty_field_refused.

Theorem C06_effect_only_if_authorised : forall kdf s ep bd o rp s',
  handle kdf life_ms s ep bd o = (rp, s') -> w_dir s' <> w_dir s ->
  exists b, bd = Some b /\ authorised kdf life_ms s ep b o = true /\ has_empty_field ep b = false.
Proof. intros kdf. exact (effect_only_if_authorised kdf life_ms). Qed.
Print Assumptions C06_effect_only_if_authorised.

Theorem C06_list_only_to_admin : forall kdf s ep bd o rp s',
  handle kdf life_ms s ep bd o = (rp, s') -> r_list rp = true ->
  exists b u, bd = Some b /\ (ep = EList \/ ep = EListFull) /\
              check (w_log s) (session_life_ns life_ms) (wo_now_ns o) (b_session b) = Accept u true.
Proof. intros kdf. exact (list_only_to_admin kdf life_ms). Qed.
Print Assumptions C06_list_only_to_admin.

(* the effect of an authorised request is exactly the store operation *)
Theorem C06_add_effect : forall kdf s b o rp s',
  handle kdf life_ms s EAdd (Some b) o = (rp, s') -> r_status rp = 200 ->
  (w_dir s', ROk) = add_user kdf (w_cfg s) (w_dir s) (b_username b) (b_password b) (b_admin b) (wo_store o) /\
  w_cfg s' = w_cfg s /\ w_log s' = w_log s.
Proof. intros kdf. exact (add_effect kdf life_ms). Qed.
Theorem C06_update_effect : forall kdf s b o rp s',
  handle kdf life_ms s EUpdate (Some b) o = (rp, s') -> w_dir s' <> w_dir s ->
  (w_dir s', ROk) = update_user kdf (w_cfg s) (w_dir s) (b_username b) (b_new b) (wo_store o) /\
  w_cfg s' = w_cfg s /\ w_log s' = w_log s.
Proof. intros kdf. exact (update_effect kdf life_ms). Qed.
Theorem C06_remove_effect : forall kdf s b o rp s',
  handle kdf life_ms s ERemove (Some b) o = (rp, s') -> r_status rp = 200 ->
  w_dir s' = remove_user (w_dir s) (b_username b) /\ w_cfg s' = w_cfg s /\ w_log s' = w_log s.
Proof. intros kdf. exact (remove_effect kdf life_ms). Qed.
Theorem C06_set_admin_effect : forall kdf s b o rp s',
  handle kdf life_ms s ESetAdmin (Some b) o = (rp, s') -> r_status rp = 200 ->
  (w_dir s', ROk) = set_admin (w_dir s) (b_username b) (b_admin b) /\ w_cfg s' = w_cfg s /\ w_log s' = w_log s.
Proof. intros kdf. exact (set_admin_effect kdf life_ms). Qed.
Print Assumptions C06_update_effect.

Theorem C06_failure_unchanged : forall kdf s ep bd o rp s',
  handle kdf life_ms s ep bd o = (rp, s') -> r_status rp <> 200 ->
  w_dir s' = w_dir s /\ w_cfg s' = w_cfg s /\ w_log s' = w_log s.
Proof. intros kdf. exact (failure_unchanged kdf life_ms). Qed.
Print Assumptions C06_failure_unchanged.

(* a session token is issued only in response to a successful password
   authentication and names that user and the admin status of that record *)
Theorem C06_token_only_after_password : forall kdf s ep bd o rp s',
  handle kdf life_ms s ep bd o = (rp, s') -> (w_log s' <> w_log s \/ r_session rp <> None) ->
  ep = EAuth /\
  exists b adm, bd = Some b /\ store_auth kdf s (b_username b) (b_password b) = Some adm /\
    w_log s' = w_log s ++ [{| s_nonce := wo_nonce o; s_ct := wo_ct o;
                              s_pt := format_token (b_username b) adm (wo_now_s o) |}] /\
    r_session rp = Some (token_text (wo_nonce o) (wo_ct o)) /\ w_dir s' = w_dir s.
Proof. intros kdf. exact (token_only_after_password kdf life_ms). Qed.
Print Assumptions C06_token_only_after_password.

(* closed under arbitrary request sequences *)
Theorem C06_log_grows_only_by_authentication : forall kdf rs s rps s',
  run_web kdf life_ms s rs = (rps, s') ->
  forall e, In e (w_log s') -> In e (w_log s) \/
    exists b o adm t, In (EAuth, Some b, o) rs /\
      e = {| s_nonce := wo_nonce o; s_ct := wo_ct o; s_pt := format_token (b_username b) adm t |}.
Proof. intros kdf. exact (log_grows_only_by_authentication kdf life_ms). Qed.
Theorem C06_unauthorised_run_changes_nothing : forall kdf rs s rps s',
  (forall ep b o, In (ep, Some b, o) rs -> authorised kdf life_ms s ep b o = false) ->
  run_web kdf life_ms s rs = (rps, s') ->
  s' = s /\ Forall (fun rp => r_status rp <> 200 /\ r_list rp = false /\ r_session rp = None) rps.
Proof. intros kdf. exact (unauthorised_run_changes_nothing kdf life_ms). Qed.
Print Assumptions C06_log_grows_only_by_authentication.
Print Assumptions C06_unauthorised_run_changes_nothing.
