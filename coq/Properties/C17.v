(* C17 — no password failing the configured policy is ever stored.
   Statements only; proofs in theories/Policy_proofs.v.  The zxcvbn estimator
   is an oracle: [policy_ok password user] is its verdict under the configured
   condition.  All write paths of the frontends go through the dispatcher's
   Store interface (extracted fact), whose handlers are [handle_req] and
   [handle_upgrade]. *)
From Whawty Require Import Bytes Record Store Policy Policy_proofs Agent.
Open Scope N_scope.

(* the condition grammar is exact (ASCII conditions) *)
Theorem C17_parse_exact : forall s p,
  parse_condition s = Some p <-> condition_grammar s p.
Proof. intros s p. split; [exact (parse_condition_sound s p) | exact (parse_condition_complete s p)]. Qed.
Print Assumptions C17_parse_exact.

(* an unparsable policy configuration stops the agent from starting *)
Theorem C17_bad_config_no_start : forall ty cond,
  ty <> [] -> (ty <> str "zxcvbn" \/ forall p, ~ condition_grammar cond p) ->
  new_policy ty cond = None.
Proof. exact bad_policy_no_start. Qed.
Theorem C17_no_type_no_policy : forall cond, new_policy [] cond = Some PNone.
Proof. exact empty_type_is_no_policy. Qed.
Theorem C17_score_threshold_bounded : forall s p,
  parse_condition s = Some p -> p_kind p = KScore -> p_thr p <= 4.
Proof. exact score_threshold_bounded. Qed.
Print Assumptions C17_bad_config_no_start.

(* no failing password is stored through any write request; the refused
   request changes nothing, notifies no hook, queues no upgrade *)
Theorem C17_policy_refusal_changes_nothing : forall kdf policy_ok orc ac c d n r pw u,
  gated r = Some (pw, u) -> policy_ok pw u = false ->
  handle_req kdf policy_ok orc ac c d n r = (c, d, ORes RErr, false, None).
Proof. exact policy_refusal_changes_nothing. Qed.
Print Assumptions C17_policy_refusal_changes_nothing.

Theorem C17_policy_refusal_upgrade : forall kdf policy_ok orc ac c d n u pw c' d' res notify,
  policy_ok pw u = false ->
  handle_upgrade kdf policy_ok orc ac c d n u pw = (c', d', res, notify) ->
  c' = c /\ d' = d /\ notify = false.
Proof. exact policy_refusal_upgrade. Qed.
Print Assumptions C17_policy_refusal_upgrade.

(* exactly init, add and update carry a new password; nothing else writes one *)
Theorem C17_gated_requests : forall r,
  gated r = None <-> match r with RInit _ _ | RAdd _ _ _ | RUpdate _ _ => False | _ => True end.
Proof. exact ungated_requests. Qed.

(* contrapositive: every record in the store was written for a password that passed *)
Theorem C17_stored_implies_passed : forall kdf policy_ok orc ac c d n r pw u c' d' ob notify upg,
  gated r = Some (pw, u) ->
  handle_req kdf policy_ok orc ac c d n r = (c', d', ob, notify, upg) ->
  d' <> d -> policy_ok pw u = true.
Proof. exact stored_implies_passed. Qed.
Print Assumptions C17_stored_implies_passed.

(* a password that satisfies the policy is not refused on policy grounds *)
Theorem C17_good_not_refused : forall kdf policy_ok orc ac c d n r pw u,
  gated r = Some (pw, u) -> policy_ok pw u = true ->
  let '(c', d', ob) := step kdf c d (op_of r) (orc n) in
  exists notify, handle_req kdf policy_ok orc ac c d n r = (c', d', ob, notify, None).
Proof. exact policy_pass_is_store_result. Qed.
Print Assumptions C17_good_not_refused.

Example C17_nonvacuous :
  parse_condition (str "  score   >=" ++ [9] ++ str "3" ++ [10]) = Some {| p_kind := KScore; p_thr := 3 |} /\
  parse_condition (str "score > 3") = None /\ parse_condition (str "score >= 5") = None /\
  policy_check (PZxcvbn {| p_kind := KEntropy; p_thr := 40 |}) {| z_score := 2; z_entropy := FNum 5 3; z_time := FInf |} = true /\
  policy_check (PZxcvbn {| p_kind := KEntropy; p_thr := 41 |}) {| z_score := 2; z_entropy := FNum 5 3; z_time := FInf |} = false.
Proof. vm_compute. auto 6. Qed.

(* ---- the model's state space is the code's declared state ----
   (theories/StateInst.v: package-level variables and struct fields listed by tools/facts on every
   run; the models keep no state between operations other than these components) *)
From Whawty Require StateInst.
Theorem C17_agent_state_inventory : StateInst.agent_state_inventory.
Proof. exact StateInst.agent_state_inventory_holds. Qed.
Theorem C17_policy_state_inventory : StateInst.policy_state_inventory.
Proof. exact StateInst.policy_state_inventory_holds. Qed.
