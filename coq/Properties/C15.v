(* C15 — operations touch only their target; failures and read-only calls
   change nothing.  Statements only; proofs in theories/StoreOps_proofs.v
   (big-step model, arbitrary directories) and StoreTrace_proofs.v (system
   calls, every single injected fault). *)
From Whawty Require Import Bytes Names Record Store StoreOps_proofs StoreTrace StoreTrace_proofs.
Open Scope N_scope.

(* ---- frame ---- *)
Theorem C15_update_frame : forall kdf c d u pw o d',
  NoDup (keys d) ->
  update_user kdf c d u pw o = (d', ROk) ->
  exists adm old h hs,
    user_exists d u = ExYes adm /\
    dlookup (u ++ ext_of adm) d = Some (File old) /\
    cfg_hasher c (default c) = Some h /\
    hash_generate kdf h (o_salt o) pw = Some hs /\
    dlookup (u ++ ext_of adm) d' =
      Some (File (print_record h (o_ts o) (default c) hs ++ after_first_line old)) /\
    (forall f, f <> u ++ ext_of adm -> f <> tmp_name -> dlookup f d' = dlookup f d).
Proof. exact update_frame. Qed.
Print Assumptions C15_update_frame.

Theorem C15_add_frame : forall kdf c d u pw adm o d',
  NoDup (keys d) ->
  add_user kdf c d u pw adm o = (d', ROk) ->
  exists h hs,
    cfg_hasher c (default c) = Some h /\
    hash_generate kdf h (o_salt o) pw = Some hs /\
    dlookup (u ++ ext_of adm) d = None /\
    dlookup (u ++ ext_of adm) d' = Some (File (print_record h (o_ts o) (default c) hs)) /\
    (forall f, f <> u ++ ext_of adm -> f <> tmp_name -> dlookup f d' = dlookup f d).
Proof. exact add_frame. Qed.
Print Assumptions C15_add_frame.

(* set-admin keeps the whole record, timestamp and auxiliary data included *)
Theorem C15_set_admin_frame : forall d u adm d',
  NoDup (keys d) ->
  set_admin d u adm = (d', ROk) ->
  exists cur n,
    user_exists d u = ExYes cur /\ dlookup (u ++ ext_of cur) d = Some n /\
    dlookup (u ++ ext_of adm) d' = Some n /\
    (cur <> adm -> dlookup (u ++ ext_of cur) d' = None) /\
    (forall f, f <> u ++ ext_admin -> f <> u ++ ext_user -> dlookup f d' = dlookup f d).
Proof. exact set_admin_frame. Qed.
Print Assumptions C15_set_admin_frame.

(* ---- a reported failure leaves the store exactly as it was ---- *)
Theorem C15_failed_add_unchanged : forall kdf c d u pw adm o d',
  add_user kdf c d u pw adm o = (d', RErr) -> d' = d.
Proof. exact failed_add_unchanged. Qed.
Theorem C15_failed_update_unchanged : forall kdf c d u pw o d',
  update_user kdf c d u pw o = (d', RErr) -> d' = d.
Proof. exact failed_update_unchanged. Qed.
Theorem C15_failed_set_admin_unchanged : forall d u adm d',
  set_admin d u adm = (d', RErr) -> d' = d.
Proof. exact failed_set_admin_unchanged. Qed.
Theorem C15_failed_init_unchanged : forall kdf c d u pw o d',
  init_store kdf c d u pw o = (d', RErr) -> d' = d.
Proof. exact failed_init_unchanged. Qed.
Print Assumptions C15_failed_add_unchanged.
Print Assumptions C15_failed_update_unchanged.

(* ---- every single injected system-call failure ---- *)
(* add: any call, any errno *)
Theorem C15_faulty_add_unchanged : forall kdf ft c d u pw adm o s,
  tmp_name_fresh d o -> (forall x, dlookup tmp_name d <> Some (File x)) ->
  p_add kdf (Some ft) c d u pw adm o = (RErr, s) ->
  same_store d (t_dir s).
Proof. exact faulty_add_unchanged. Qed.
Print Assumptions C15_faulty_add_unchanged.

(* update: any call before the rename step *)
Theorem C15_faulty_update_unchanged_partial : forall kdf ft c d u pw o s,
  tmp_name_fresh d o ->
  p_update kdf (Some ft) c d u pw o = (RErr, s) ->
  ~ has_rename (events s) ->
  same_store d (t_dir s).
Proof. exact faulty_update_unchanged. Qed.
Print Assumptions C15_faulty_update_unchanged_partial.

(* the full statement (any call) is FALSE of the code and of any protocol
   that ends with rename + directory fsync: the witness is an EIO on the
   fsync of the base directory (recorded in KNOWN_FINDINGS.txt) *)
Definition C15_faulty_update_full : Prop :=
  forall kdf ft c d u pw o s,
    tmp_name_fresh d o -> p_update kdf (Some ft) c d u pw o = (RErr, s) -> same_store d (t_dir s).
Theorem C15_faulty_update_full_refuted :
  exists (ft : fault) c d u pw o s,
    tmp_name_fresh d o /\
    p_update (fun _ _ p => Some (1 :: p)) (Some ft) c d u pw o = (RErr, s) /\
    ~ same_store d (t_dir s).
Proof. exact faulty_update_after_rename_refuted. Qed.
Print Assumptions C15_faulty_update_full_refuted.

Theorem C15_faulty_set_admin_unchanged_partial : forall ft d u adm s,
  p_set_admin (Some ft) d u adm = (RErr, s) ->
  ~ has_rename (events s) ->
  t_dir s = d.
Proof. exact faulty_set_admin_unchanged. Qed.

(* a fault that does not make the operation fail does not change its effect *)
Theorem C15_faulty_add_success_same : forall kdf ft c d u pw adm o s,
  tmp_name_fresh d o ->
  p_add kdf (Some ft) c d u pw adm o = (ROk, s) ->
  exists s0, p_add kdf None c d u pw adm o = (ROk, s0) /\ same_store (t_dir s0) (t_dir s).
Proof. exact faulty_add_success_same. Qed.
Theorem C15_faulty_update_success_same : forall kdf ft c d u pw o s,
  tmp_name_fresh d o ->
  p_update kdf (Some ft) c d u pw o = (ROk, s) ->
  exists s0, p_update kdf None c d u pw o = (ROk, s0) /\ same_store (t_dir s0) (t_dir s).
Proof. exact faulty_update_success_same. Qed.
Print Assumptions C15_faulty_update_success_same.

(* the system-call programs compute the big-step results when nothing fails *)
Theorem C15_programs_are_the_model_add : forall kdf c d u pw adm o,
  tmp_name_fresh d o ->
  let '(r, s) := p_add kdf None c d u pw adm o in
  let '(d', r') := add_user kdf c d u pw adm o in
  r = r' /\ same_store d' (t_dir s).
Proof. exact nofault_add. Qed.
Theorem C15_programs_are_the_model_update : forall kdf c d u pw o,
  tmp_name_fresh d o ->
  let '(r, s) := p_update kdf None c d u pw o in
  let '(d', r') := update_user kdf c d u pw o in
  r = r' /\ same_store d' (t_dir s).
Proof. exact nofault_update. Qed.
Print Assumptions C15_programs_are_the_model_update.

(* ---- read-only calls ---- *)
Theorem C15_read_only : forall kdf c d o orc,
  match o with OpAuth _ _ | OpExists _ | OpList | OpListFull | OpCheck => True | _ => False end ->
  snd (fst (step kdf c d o orc)) = d.
Proof. exact read_only_ops. Qed.
Print Assumptions C15_read_only.

(* ---- the model's state space is the code's declared state ----
   (theories/StateInst.v: package-level variables and struct fields listed by tools/facts on every
   run; the models keep no state between operations other than these components) *)
From Whawty Require StateInst.
Theorem C15_store_state_inventory : StateInst.store_state_inventory.
Proof. exact StateInst.store_state_inventory_holds. Qed.
