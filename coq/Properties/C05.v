(* C05 — the saslauthd server fails closed on every byte stream.
   Statements only; proofs in theories/SaslServer_proofs.v.  [cb] is an
   arbitrary callback, [evs] an arbitrary sequence of read results. *)
From Whawty Require Import Bytes SaslCodec SaslCodec_proofs SaslServer SaslServer_proofs Extracted.
Open Scope N_scope.

Notation max := Extracted.max_request_length.
Lemma max_ok : 3 <= max <= 65535. Proof. vm_compute. split; discriminate. Qed.

Theorem C05_cb_at_most_once : forall cb evs, (length (fst (serve max cb evs)) <= 1)%nat.
Proof. exact (cb_at_most_once max max_ok). Qed.
Print Assumptions C05_cb_at_most_once.

Theorem C05_cb_exact_fields : forall cb evs r,
  fst (serve max cb evs) = [r] ->
  exists k, parse_parts max 4 (alldata evs) = POk (req_fields r) k /\
            login r <> [] /\ password r <> [] /\
            forallb (fun f => len f <=? max) (req_fields r) = true.
Proof. exact (cb_exact_fields max). Qed.
Print Assumptions C05_cb_exact_fields.

Theorem C05_fail_closed : forall cb evs msg wire,
  snd (serve max cb evs) = Reply true msg wire ->
  exists r, fst (serve max cb evs) = [r] /\ cb_ok (cb r) = true /\ cb_err (cb r) = None.
Proof. exact (fail_closed max). Qed.
Print Assumptions C05_fail_closed.

Theorem C05_exactly_one_reply : forall cb evs,
  wb O evs -> snd (stream evs) = true ->
  exists ok msg wire, snd (serve max cb evs) = Reply ok msg wire.
Proof. exact (exactly_one_reply max). Qed.
Print Assumptions C05_exactly_one_reply.

Theorem C05_no_reply_before_complete : forall cb evs,
  snd (serve max cb evs) = NoReply -> fst (serve max cb evs) = [].
Proof. exact (no_reply_before_complete max). Qed.
Print Assumptions C05_no_reply_before_complete.

Theorem C05_reply_decodable : forall cb evs ok m wire,
  snd (serve max cb evs) = Reply ok (Some m) wire ->
  exists w, wire = Some w /\
    w = enc_part (response_text ok m) /\
    len (response_text ok m) <= max /\
    decode_response_bytes max w = RsOk ok m /\
    (forall pmax, max <= pmax -> pam_accepts pmax w = ok).
Proof. exact (reply_decodable max max_ok). Qed.
Print Assumptions C05_reply_decodable.

Theorem C05_reply_is_callback_verdict : forall cb evs r ok m wire,
  fst (serve max cb evs) = [r] -> snd (serve max cb evs) = Reply ok m wire ->
  ok = (cb_ok (cb r) && match cb_err (cb r) with None => true | Some _ => false end).
Proof. exact (reply_is_callback_verdict max). Qed.
Print Assumptions C05_reply_is_callback_verdict.

Theorem C05_connection_independent : forall cb evs1 evs2,
  wb O evs1 -> wb O evs2 -> stream evs1 = stream evs2 ->
  serve max cb evs1 = serve max cb evs2.
Proof. exact (connection_independent max). Qed.
Print Assumptions C05_connection_independent.

(* non-vacuity: a stream delivered in three reads whose request is approved
   with a 300-byte message: one callback, a decodable positive reply *)
Example C05_nonvacuous :
  let cb := fun _ : request => {| cb_ok := true; cb_msg := repeat_byte 109 300; cb_err := None |} in
  let evs := [([0; 1; 97; 0], Cont); ([], Cont); ([2; 112; 119; 0; 0; 0; 0; 1; 2; 3], EofS)] in
  wb O evs /\ length (fst (serve max cb evs)) = 1%nat /\
  exists w, snd (serve max cb evs) = Reply true (Some (repeat_byte 109 253)) (Some w) /\
            decode_response_bytes max w = RsOk true (repeat_byte 109 253).
Proof. split; [apply wbb_wb; vm_compute; reflexivity|]. split; [vm_compute; reflexivity|]. eexists. split; vm_compute; reflexivity. Qed.

(* ---- the model's state space is the code's declared state ----
   (theories/StateInst.v: package-level variables and struct fields listed by tools/facts on every
   run; the models keep no state between operations other than these components) *)
From Whawty Require StateInst.
Theorem C05_sasl_state_inventory : StateInst.sasl_state_inventory.
Proof. exact StateInst.sasl_state_inventory_holds. Qed.
