(* C18 — configuration loading is exact and reload is all-or-nothing.
   Statements only; proofs in theories/Config_proofs.v.  The YAML text layer
   (yaml.v3 with KnownFields) is outside the model: a tree is what the decoder
   produced.  "Never crashing" is stated against the library precondition
   model [hasher_usable] (transcribed from scrypt.Key / argon2.IDKey) and
   observed on the real code by the check (child processes). *)
From Whawty Require Import Bytes Base64 Record Config Config_proofs.
Open Scope N_scope.

Theorem C18_load_exact : forall t, (exists l, from_config t = Some l) <-> wf_tree t.
Proof. exact load_exact. Qed.
Print Assumptions C18_load_exact.

Theorem C18_load_carries_tree : forall t l,
  from_config t = Some l ->
  l_basedir l = t_basedir t /\ default (l_config l) = t_default t /\
  (forall id h, plookup id (params (l_config l)) = Some h ->
     exists s, In s (t_sets t) /\ sc_id s = id /\
       (match sc_scrypt s, sc_argon s with
        | Some sp, None => new_scrypt sp = Some h
        | None, Some ap => new_argon ap = Some h
        | _, _ => False end)) /\
  (forall s, In s (t_sets t) -> exists h, plookup (sc_id s) (params (l_config l)) = Some h).
Proof. exact load_carries_tree. Qed.
Print Assumptions C18_load_carries_tree.

Theorem C18_accepted_never_panics : forall t l id h,
  from_config t = Some l -> plookup id (params (l_config l)) = Some h -> hasher_usable h <> Panics.
Proof. exact accepted_never_panics. Qed.
Print Assumptions C18_accepted_never_panics.

Theorem C18_scrypt_params_used : forall p k,
  std_dec (sp_key64 p) = Some k -> length k = 32%nat -> sp_cost p <= 31 ->
  new_scrypt p = Some (HScrypt k (sp_cost p) (if (0 <? sp_r p)%Z then sp_r p else 8%Z)
                                             (if (0 <? sp_p p)%Z then sp_p p else 1%Z)).
Proof. exact scrypt_params_used. Qed.

(* reload: complete old or complete new configuration, new only if it loads
   and its directory passes the consistency check *)
Theorem C18_reload_all_or_nothing : forall cur nt chk,
  reload cur nt chk = cur \/
  exists t n, nt = Some t /\ from_config t = Some n /\ chk n = true /\ reload cur nt chk = n.
Proof. exact reload_all_or_nothing. Qed.
Theorem C18_reload_keeps_on_failure : forall cur nt chk,
  (nt = None \/ (exists t, nt = Some t /\ from_config t = None) \/
   (exists t n, nt = Some t /\ from_config t = Some n /\ chk n = false)) ->
  reload cur nt chk = cur.
Proof. exact reload_keeps_on_failure. Qed.
Print Assumptions C18_reload_all_or_nothing.

Example C18_nonvacuous :
  let good := {| t_basedir := str "/s"; t_default := 2;
                 t_sets := [{| sc_id := 2; sc_scrypt := None;
                               sc_argon := Some {| ap_time := 1; ap_memory := 8; ap_threads := 1; ap_length := 32 |} |}] |} in
  let bad := {| t_basedir := str "/s"; t_default := 2;
                t_sets := [{| sc_id := 2; sc_scrypt := None;
                              sc_argon := Some {| ap_time := 0; ap_memory := 8; ap_threads := 1; ap_length := 32 |} |}] |} in
  (exists l, from_config good = Some l) /\ from_config bad = None.
Proof. split; [eexists; vm_compute; reflexivity | vm_compute; reflexivity]. Qed.

(* ---- the model's state space is the code's declared state ----
   (theories/StateInst.v: package-level variables and struct fields listed by tools/facts on every
   run; the models keep no state between operations other than these components) *)
From Whawty Require StateInst.
Theorem C18_agent_state_inventory : StateInst.agent_state_inventory.
Proof. exact StateInst.agent_state_inventory_holds. Qed.
