(* C09 — acknowledged changes survive power loss.  Statements only; proofs in
   theories/Crash_proofs.v, under the persistence model of Crash.v (see C08). *)
From Whawty Require Import Bytes Names Record Store StoreTrace Crash Crash_proofs AckedDurable_proofs DurHist DurHist_proofs ModelHist ModelHist_proofs.
Open Scope N_scope.

(* on a disk whose base directory is quiescent every crash state shows
   exactly what running processes see *)
Theorem C09_crash_view_of_quiescent : forall d c,
  base_quiescent d -> crash_of d c -> forall f, crashed_file c f = vol_file d f.
Proof. exact crash_view_of_quiescent. Qed.
Print Assumptions C09_crash_view_of_quiescent.

(* a completed add / update: the new content is what every later crash state
   shows, and the base directory is quiescent again - so the argument chains
   over any history of operations *)
Theorem C09_complete_is_durable : forall f reserve d0 evs,
  base_quiescent d0 -> target_pre f reserve d0 -> tmp_fresh evs d0 ->
  protocol_complete_ok f reserve evs = true ->
  base_quiescent (exec_events d0 evs) /\
  vol_file (exec_events d0 evs) f = Some (tmp_data evs) /\
  (forall g, g <> f -> vol_file (exec_events d0 evs) g = vol_file d0 g).
Proof. exact complete_is_durable. Qed.
Print Assumptions C09_complete_is_durable.

Theorem C09_complete_survives_crash : forall f reserve d0 evs c,
  base_quiescent d0 -> target_pre f reserve d0 -> tmp_fresh evs d0 ->
  protocol_complete_ok f reserve evs = true ->
  crash_of (exec_events d0 evs) c ->
  crashed_file c f = Some (tmp_data evs) /\
  (forall g, g <> f -> crashed_file c g = vol_file d0 g).
Proof. exact complete_survives_crash. Qed.
Print Assumptions C09_complete_survives_crash.

(* never visible under its final name before its content is durable *)
Theorem C09_no_early_visibility : forall f reserve evs t,
  protocol_prefix_ok f reserve evs = true ->
  In (ERename (LTmpFile t) (LFile f)) evs ->
  exists l1 l2 l3,
    evs = l1 ++ EFsync (LTmpFile t) :: l2 ++ ERename (LTmpFile t) (LFile f) :: l3 /\
    (forall l d, ~ In (EWrite l d) l2) /\ (forall l d, ~ In (EWrite l d) l3).
Proof. exact no_early_visibility. Qed.
Print Assumptions C09_no_early_visibility.

Theorem C09_set_admin_durable : forall d0 a b content c,
  base_quiescent d0 -> a <> b -> vol_file d0 a = Some content -> vol_file d0 b = None ->
  let d := exec_events d0 [ERename (LFile a) (LFile b); EFsync LBaseDir] in
  base_quiescent d /\
  (crash_of d c -> crashed_file c b = Some content /\ crashed_file c a = None /\
                   forall g, g <> a -> g <> b -> crashed_file c g = vol_file d0 g).
Proof. exact set_admin_durable. Qed.
Print Assumptions C09_set_admin_durable.

Theorem C09_remove_durable : forall d0 names c,
  base_quiescent d0 ->
  let d := exec_events d0 (map (fun n => EUnlink (LFile n)) names ++ [EFsync LBaseDir]) in
  base_quiescent d /\
  (crash_of d c -> (forall n, In n names -> crashed_file c n = None) /\
                   forall g, ~ In g names -> crashed_file c g = vol_file d0 g).
Proof. exact remove_durable. Qed.
Print Assumptions C09_remove_durable.

Theorem C09_durability_checker_sound : forall d0 evs,
  base_quiescent d0 -> dir_only evs -> durability_ok evs = true ->
  base_quiescent (exec_events d0 evs).
Proof. exact durability_checker_sound. Qed.
Print Assumptions C09_durability_checker_sound.

(* the model's set-admin / remove programs sync the base directory *)
Theorem C09_set_admin_events : forall d u adm s,
  p_set_admin None d u adm = (ROk, s) ->
  events s = [EFsync LBaseDir] \/
  exists cur, user_exists d u = ExYes cur /\ cur <> adm /\
    events s = [ERename (LFile (u ++ ext_of cur)) (LFile (u ++ ext_of adm)); EFsync LBaseDir].
Proof. exact set_admin_events. Qed.
Theorem C09_remove_events_durable : forall d u,
  durability_ok (events (p_remove_user None d u)) = true.
Proof. exact remove_events_durable. Qed.
Print Assumptions C09_set_admin_events.

(* the repaired defects: without the final fsync the acknowledged change can be lost *)
(* ---- under every single injected I/O error ----
   Whatever fault [ft : option fault] hits the operation: if it REPORTS SUCCESS, its trace is
   the complete discipline (add / update) and every change of the base directory is followed
   by an fsync of the base directory (all four).  For remove this is what the repair b74e4b4
   established: before it the operation could not report failure at all. *)
Theorem C09_acked_remove_durable : forall ft d u,
  p_remove_user_res ft d u = ROk -> durability_ok (events (p_remove_user ft d u)) = true.
Proof. exact acked_remove_durable. Qed.
Theorem C09_acked_set_admin_durable : forall ft d u adm s,
  p_set_admin ft d u adm = (ROk, s) -> durability_ok (events s) = true.
Proof. exact acked_set_admin_durable. Qed.
Theorem C09_acked_add_complete : forall kdf ft c d u pw adm o s,
  p_add kdf ft c d u pw adm o = (ROk, s) ->
  protocol_complete_ok (u ++ ext_of adm) true (events s) = true /\ durability_ok (events s) = true.
Proof. exact acked_add_complete. Qed.
Theorem C09_acked_update_complete : forall kdf ft c d u pw o s adm,
  p_update kdf ft c d u pw o = (ROk, s) -> user_exists d u = ExYes adm ->
  protocol_complete_ok (u ++ ext_of adm) false (events s) = true /\ durability_ok (events s) = true.
Proof. exact acked_update_complete. Qed.
Theorem C09_complete_implies_durable : forall f rv evs,
  protocol_complete_ok f rv evs = true -> durability_ok evs = true.
Proof. exact complete_durable. Qed.
Print Assumptions C09_acked_remove_durable.
Print Assumptions C09_acked_add_complete.
Print Assumptions C09_acked_update_complete.

Theorem C09_refuted_bare_rename :
  exists d0 c, base_quiescent d0 /\ vol_file d0 (str "u.user") = Some (str "rec") /\
    crash_of (exec_events d0 [ERename (LFile (str "u.user")) (LFile (str "u.admin"))]) c /\
    crashed_file c (str "u.admin") = None /\ crashed_file c (str "u.user") = Some (str "rec").
Proof. exact bare_rename_not_durable. Qed.
Theorem C09_refuted_bare_unlink :
  exists d0 c, base_quiescent d0 /\ vol_file d0 (str "u.user") = Some (str "rec") /\
    crash_of (exec_events d0 [EUnlink (LFile (str "u.user"))]) c /\
    crashed_file c (str "u.user") = Some (str "rec").
Proof. exact bare_unlink_not_durable. Qed.
Print Assumptions C09_refuted_bare_rename.

(* ---- over histories, with failed operations in them (the quantifier's "any history ... fault
   sequences") ----
   A failed set-admin / remove / add / update may leave an entry change of the base directory
   pending (renamed or unlinked, the directory fsync failed, the error was reported).  The
   invariant DInv holds between the operations of ANY history whose steps have the two shapes the
   store's operations have, and a name without pending entry change reads the same after every
   crash.  The checker hist_ok (run on every observed history, Run/C09h) carries the dirty names
   from step to step; when it accepts, every crash state after an acknowledged mutating
   operation on user u shows under u's two names what running processes saw on return. *)
Theorem C09_invariant_between_operations : forall d s,
  DInv d -> step_shape_ok s = true -> DInv (exec_events d (h_evs s)).
Proof. exact step_preserves. Qed.
Print Assumptions C09_invariant_between_operations.

Theorem C09_clean_names_survive : forall d c g,
  DInv d -> crash_of d c -> ~ In g (pend_names (base_pend d)) -> crashed_file c g = vol_file d g.
Proof. exact clean_names_survive. Qed.
Print Assumptions C09_clean_names_survive.

Theorem C09_history_acked_durable : forall d0 h s u c,
  base_quiescent d0 -> tmp_inj d0 ->
  hist_ok (h ++ [s]) [] = true -> h_ack s = Some u ->
  crash_of (exec_events d0 (hist_events (h ++ [s]))) c ->
  crashed_file c (u ++ ext_user) = vol_file (exec_events d0 (hist_events (h ++ [s]))) (u ++ ext_user) /\
  crashed_file c (u ++ ext_admin) = vol_file (exec_events d0 (hist_events (h ++ [s]))) (u ++ ext_admin).
Proof. exact history_acked_durable. Qed.
Print Assumptions C09_history_acked_durable.

Theorem C09_history_clean_names_durable : forall d0 h g c,
  base_quiescent d0 -> tmp_inj d0 -> hist_ok h [] = true ->
  bmem g (fold_left (fun dn s => dirty_names_after (h_evs s) dn) h []) = false ->
  crash_of (exec_events d0 (hist_events h)) c ->
  crashed_file c g = vol_file (exec_events d0 (hist_events h)) g.
Proof. exact history_clean_names_durable. Qed.
Print Assumptions C09_history_clean_names_durable.

(* a complete add / update leaves nothing dirty, whatever was dirty before it *)
Theorem C09_complete_cleans : forall f rv evs dn,
  protocol_complete_ok f rv evs = true -> dirty_names_after evs dn = [].
Proof. exact complete_cleans. Qed.
Print Assumptions C09_complete_cleans.

(* non-vacuity: a history with a failed first attempt is accepted when the retry syncs ... *)
Example C09_history_example_accepted :
  hist_ok [ {| h_shape := HDir; h_ack := None;
               h_evs := [ERename (LFile (str "u.user")) (LFile (str "u.admin"))] |};
            {| h_shape := HDir; h_ack := Some (str "u"); h_evs := [EFsync LBaseDir] |} ] [] = true.
Proof. exact retry_history_with_sync_accepted. Qed.

(* ... and the retry that acknowledges "already in that state" without a directory fsync is the
   refutation witness of the defect D13 (set-admin before its repair): acknowledged, the running
   view shows the new flag, a crash state does not *)
Theorem C09_refuted_retry_without_sync :
  exists d0 c,
    base_quiescent d0 /\ tmp_inj d0 /\ vol_file d0 (str "u.user") = Some (str "rec") /\
    let h := [ {| h_shape := HDir; h_ack := None;
                  h_evs := [ERename (LFile (str "u.user")) (LFile (str "u.admin"))] |};
               {| h_shape := HDir; h_ack := Some (str "u"); h_evs := [] |} ] in
    vol_file (exec_events d0 (hist_events h)) (str "u.admin") = Some (str "rec") /\
    crash_of (exec_events d0 (hist_events h)) c /\
    crashed_file c (str "u.admin") = None.
Proof. exact retry_without_sync_refuted. Qed.
Print Assumptions C09_refuted_retry_without_sync.

(* ---- the model's operations in ANY history, each under ANY optional fault ----
   every step has the expected shape and acknowledges only with nothing dirty, so the checker
   accepts every model history; with C09_history_acked_durable: whatever failed before, every
   crash state after an acknowledged model operation on u shows under u's names what running
   processes saw on return.  (p_set_admin is the repaired one: 5ef5850.) *)
Theorem C09_model_histories_accepted : forall kdf c xs d dn,
  hist_ok (mrun kdf c d xs) dn = true.
Proof. exact model_histories_accepted. Qed.
Print Assumptions C09_model_histories_accepted.

Theorem C09_model_history_acked_durable : forall kdf c xs x d d0 u cr,
  base_quiescent d0 -> tmp_inj d0 ->
  h_ack (last (mrun kdf c d (xs ++ [x])) {| h_shape := HDir; h_ack := None; h_evs := [] |}) = Some u ->
  crash_of (exec_events d0 (hist_events (mrun kdf c d (xs ++ [x])))) cr ->
  crashed_file cr (u ++ ext_user) = vol_file (exec_events d0 (hist_events (mrun kdf c d (xs ++ [x])))) (u ++ ext_user) /\
  crashed_file cr (u ++ ext_admin) = vol_file (exec_events d0 (hist_events (mrun kdf c d (xs ++ [x])))) (u ++ ext_admin).
Proof. exact model_history_acked_durable. Qed.
Print Assumptions C09_model_history_acked_durable.

Theorem C09_acked_set_admin_clean : forall ft d u adm s dn,
  p_set_admin ft d u adm = (ROk, s) -> dirty_names_after (events s) dn = [].
Proof. exact acked_set_admin_clean. Qed.
Theorem C09_acked_remove_clean : forall ft d u dn,
  valid_name u = true -> p_remove_user_res ft d u = ROk ->
  dirty_names_after (events (p_remove_user ft d u)) dn = [].
Proof. exact acked_remove_clean. Qed.
Print Assumptions C09_acked_set_admin_clean.

(* non-vacuity: a concrete model history with a failed directory flush followed by the retry *)
Example C09_model_history_example :
  let d := [(str "alice.user", File (str "rec\n"))] in
  let xs := [ (MSetAdmin (str "alice") true, Some {| f_kind := KFsync; f_occ := 0; f_errno := EIO |},
               {| o_ts := 0%Z; o_salt := []; o_tmp := []; o_order := [] |});
              (MSetAdmin (str "alice") true, None, {| o_ts := 0%Z; o_salt := []; o_tmp := []; o_order := [] |}) ] in
  map h_ack (mrun (fun _ _ _ => None) {| params := []; default := 1 |} d xs) = [None; Some (str "alice")] /\
  map h_evs (mrun (fun _ _ _ => None) {| params := []; default := 1 |} d xs)
    = [[ERename (LFile (str "alice.user")) (LFile (str "alice.admin"))]; [EFsync LBaseDir]].
Proof. vm_compute. split; reflexivity. Qed.

(* ---- the model's state space is the code's declared state ----
   (theories/StateInst.v: package-level variables and struct fields listed by tools/facts on every
   run; the models keep no state between operations other than these components) *)
From Whawty Require StateInst.
Theorem C09_store_state_inventory : StateInst.store_state_inventory.
Proof. exact StateInst.store_state_inventory_holds. Qed.
