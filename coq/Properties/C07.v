(* C07 — session tokens are unforgeable, instance-bound, identity-bound and
   expire.  Statements only; proofs in theories/Session_proofs.v.

   AES-GCM is idealised: the factory is the LOG [l] of the (nonce, ciphertext,
   plaintext) triples it sealed, and a pair opens iff it is in the log.  Under
   that reading "differs in even one bit from every issued token" is
   "(nonce, ciphertext) is not in the log". *)
From Whawty Require Import Bytes Base64 Session Session_proofs Extracted.
Open Scope N_scope.

(* the lifetime the web handler uses, in nanoseconds *)
Definition life : Z := (Z.of_N Extracted.session_lifetime_ms * 1000000)%Z.
Lemma life_nonneg : (0 <= life)%Z. Proof. vm_compute. discriminate. Qed.

Theorem C07_accept_only_if_issued : forall l now s u a,
  check l life now s = Accept u a ->
  exists e ts, In e l /\ decode_text s = Some (s_nonce e, s_ct e) /\
    parse_token (s_pt e) = Some (u, a, ts) /\
    (0 <= now - go_unix_sec ts * 1000000000 <= life)%Z.
Proof. intros l now s u a. exact (accept_only_if_issued l life now s u a). Qed.
Print Assumptions C07_accept_only_if_issued.

Theorem C07_issued_is_accepted : forall l now s e u a ts,
  NoDup (map (fun x => (s_nonce x, s_ct x)) l) ->
  In e l -> decode_text s = Some (s_nonce e, s_ct e) -> length (s_nonce e) = nonce_size ->
  parse_token (s_pt e) = Some (u, a, ts) ->
  (0 <= now - go_unix_sec ts * 1000000000 <= life)%Z ->
  check l life now s = Accept u a.
Proof. intros l now s e u a ts. exact (issued_is_accepted l life now s e u a ts). Qed.
Print Assumptions C07_issued_is_accepted.

(* identity-bound *)
Theorem C07_identity_bound : forall u a t,
  contains colon u = false -> (- (max_i64 + 1) <= t <= max_i64)%Z ->
  parse_token (format_token u a t) = Some (u, a, t).
Proof. exact parse_format. Qed.
Theorem C07_colon_name_never_accepted : forall u a t,
  contains colon u = true -> parse_token (format_token u a t) = None.
Proof. exact parse_format_colon_name. Qed.
Theorem C07_strict_flag : forall u f t,
  contains colon u = false -> contains colon f = false ->
  f <> str "true" -> f <> str "false" ->
  parse_token (u ++ [colon] ++ f ++ [colon] ++ t) = None.
Proof. exact strict_flag. Qed.
Print Assumptions C07_identity_bound.
Print Assumptions C07_colon_name_never_accepted.

(* unforgeable / instance-bound: a pair that is not in this instance's log *)
Theorem C07_not_sealed_rejected : forall l now s n c,
  decode_text s = Some (n, c) ->
  (forall e, In e l -> ~ (s_nonce e = n /\ s_ct e = c)) ->
  check l life now s = Reject401 \/ check l life now s = Reject400.
Proof. intros l now s n c. exact (not_sealed_rejected l life now s n c). Qed.
Theorem C07_undecodable_rejected : forall l now s,
  decode_text s = None -> check l life now s = Reject400.
Proof. intros l now s. exact (undecodable_rejected l life now s). Qed.
Print Assumptions C07_not_sealed_rejected.

(* expiry, future dating, inclusive boundary *)
Theorem C07_expired_rejected : forall l now s e u a ts,
  NoDup (map (fun x => (s_nonce x, s_ct x)) l) ->
  In e l -> decode_text s = Some (s_nonce e, s_ct e) -> length (s_nonce e) = nonce_size ->
  parse_token (s_pt e) = Some (u, a, ts) ->
  (life < now - go_unix_sec ts * 1000000000)%Z ->
  check l life now s = Reject401.
Proof. intros l now s e u a ts. exact (expired_rejected l life now s e u a ts life_nonneg). Qed.
Theorem C07_future_rejected : forall l now s e u a ts,
  NoDup (map (fun x => (s_nonce x, s_ct x)) l) ->
  In e l -> decode_text s = Some (s_nonce e, s_ct e) -> length (s_nonce e) = nonce_size ->
  parse_token (s_pt e) = Some (u, a, ts) ->
  (now - go_unix_sec ts * 1000000000 < 0)%Z ->
  check l life now s = Reject400.
Proof. intros l now s e u a ts. exact (future_rejected l life now s e u a ts). Qed.
Print Assumptions C07_expired_rejected.
Print Assumptions C07_future_rejected.

Theorem C07_clock_identity : forall ts,
  (- 9223372036854775808 - 62135596800 <= ts < 9223372036854775808 - 62135596800)%Z ->
  go_unix_sec ts = ts.
Proof. exact go_unix_sec_id. Qed.

(* a token just generated is accepted with exactly its identity *)
Theorem C07_generated_is_accepted : forall l u a now_s nonce ct now,
  contains colon u = false -> (- (max_i64 + 1) <= now_s <= max_i64)%Z ->
  bytes_wf nonce = true -> bytes_wf ct = true -> length nonce = nonce_size ->
  (forall e, In e l -> ~ (s_nonce e = nonce /\ s_ct e = ct)) ->
  (0 <= now - go_unix_sec now_s * 1000000000 <= life)%Z ->
  let '(l', text) := generate l u a now_s nonce ct in
  check l' life now text = Accept u a.
Proof. intros l u a now_s nonce ct now. exact (generated_is_accepted l u a now_s nonce ct life now). Qed.
Print Assumptions C07_generated_is_accepted.

(* no two issued tokens share a nonce, given distinct nonces from crypto/rand *)
Theorem C07_nonces_unique : forall reqs,
  NoDup (map (fun x => match x with (_, _, _, n, _) => n end) reqs) ->
  NoDup (map s_nonce (issue_all [] reqs)).
Proof. exact nonces_unique. Qed.
Print Assumptions C07_nonces_unique.

Example C07_nonvacuous :
  let l := fst (generate [] (str "alice") true 1700000000%Z (repeat_byte 7 12) [1; 2; 3]) in
  let text := snd (generate [] (str "alice") true 1700000000%Z (repeat_byte 7 12) [1; 2; 3]) in
  check l life 1700000300000000000%Z text = Accept (str "alice") true /\
  check l life 1700000601000000000%Z text = Reject401 /\
  check l life 1699999999000000000%Z text = Reject400 /\
  check l life 1700000300000000000%Z (firstn 10 text ++ [66] ++ skipn 11 text) = Reject401.
Proof. vm_compute. auto. Qed.

(* ---- the model's state space is the code's declared state ----
   (theories/StateInst.v: package-level variables and struct fields listed by tools/facts on every
   run; the models keep no state between operations other than these components) *)
From Whawty Require StateInst.
Theorem C07_session_state_inventory : StateInst.session_state_inventory.
Proof. exact StateInst.session_state_inventory_holds. Qed.
