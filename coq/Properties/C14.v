(* C14 — written records follow the schema and the configured parameters
   exactly.  Statements only; proofs in theories/C14_proofs.v.  [kdf] is
   arbitrary: the digest in the record is whatever the key-derivation function
   of the configured default parameter set returns for exactly this password
   and the fresh salt (the check recomputes it independently with x/crypto). *)
From Whawty Require Import Bytes Base64 Record Store StoreOps_proofs C14_proofs.
Open Scope N_scope.

Theorem C14_add_writes_schema_record : forall kdf c d u pw adm o d',
  NoDup (keys d) ->
  add_user kdf c d u pw adm o = (d', ROk) ->
  exists h dig, cfg_hasher c (default c) = Some h /\ kdf h (o_salt o) pw = Some dig /\
    dlookup (u ++ ext_of adm) d' = Some (File (schema_line h (o_ts o) (default c) (o_salt o) dig)).
Proof. exact add_writes_schema_record. Qed.
Print Assumptions C14_add_writes_schema_record.

Theorem C14_update_writes_schema_record : forall kdf c d u pw o d',
  NoDup (keys d) ->
  update_user kdf c d u pw o = (d', ROk) ->
  exists adm old h dig, user_exists d u = ExYes adm /\ dlookup (u ++ ext_of adm) d = Some (File old) /\
    cfg_hasher c (default c) = Some h /\ kdf h (o_salt o) pw = Some dig /\
    dlookup (u ++ ext_of adm) d' =
      Some (File (schema_line h (o_ts o) (default c) (o_salt o) dig ++ after_first_line old)).
Proof. exact update_writes_schema_record. Qed.
Print Assumptions C14_update_writes_schema_record.

(* '<algorithm>:<unix time>:<parameter-set id>:<base64url salt>:<base64url digest>' *)
Theorem C14_schema_line_parses : forall h ts pid salt dig tail,
  (- (max_i64 + 1) <= ts <= max_i64)%Z -> pid <= max_u64 ->
  bytes_wf salt = true -> bytes_wf dig = true ->
  exists r, parse_record (schema_line h ts pid salt dig ++ tail) = Some r /\
    r_fmt r = fmt_of h /\ r_ts r = ts /\ r_pid r = pid /\ decode_hash (r_hash r) = Some (salt, dig).
Proof. exact schema_line_parses. Qed.
Print Assumptions C14_schema_line_parses.

Theorem C14_single_line : forall h ts pid salt dig,
  bytes_wf salt = true -> bytes_wf dig = true ->
  exists body, schema_line h ts pid salt dig = body ++ [lf] /\ contains lf body = false.
Proof. exact schema_line_single_line. Qed.
Print Assumptions C14_single_line.

(* the store holds nothing about the password but the digest (and so nothing
   of the HMAC key, which only enters through kdf) *)
Theorem C14_no_secret_in_store : forall kdf c d u p1 p2 adm o h,
  cfg_hasher c (default c) = Some h -> kdf h (o_salt o) p1 = kdf h (o_salt o) p2 ->
  add_user kdf c d u p1 adm o = add_user kdf c d u p2 adm o /\
  update_user kdf c d u p1 o = update_user kdf c d u p2 o.
Proof. exact written_depends_on_digest_only. Qed.
Print Assumptions C14_no_secret_in_store.

(* fresh salts give distinct records: the salt (and digest) can be read back
   from the line, so a duplicate-free salt source never repeats a record *)
Theorem C14_salt_recoverable : forall h ts pid s1 s2 d1 d2,
  bytes_wf s1 = true -> bytes_wf s2 = true -> bytes_wf d1 = true -> bytes_wf d2 = true ->
  schema_line h ts pid s1 d1 = schema_line h ts pid s2 d2 -> s1 = s2 /\ d1 = d2.
Proof. exact schema_line_injective. Qed.
Print Assumptions C14_salt_recoverable.

Definition toy_kdf (h : hasher) (s p : bytes) : option bytes := Some (9 :: p ++ s).
Example C14_nonvacuous :
  let c := {| params := [(7, HScrypt (repeat_byte 1 32) 14 8 1)]; default := 7 |} in
  let o := {| o_ts := 1700000000%Z; o_salt := [1; 2; 3; 4]; o_tmp := str "t1"; o_order := [] |} in
  exists d', add_user toy_kdf c [] (str "alice") (str "pw") false o = (d', ROk) /\
    dlookup (str "alice.user") d' =
      Some (File (str "hmac_sha256_scrypt:1700000000:7:AQIDBA==:CXB3AQIDBA==" ++ [10])).
Proof. eexists. split; vm_compute; reflexivity. Qed.

(* ---- the model's state space is the code's declared state ----
   (theories/StateInst.v: package-level variables and struct fields listed by tools/facts on every
   run; the models keep no state between operations other than these components) *)
From Whawty Require StateInst.
Theorem C14_store_state_inventory : StateInst.store_state_inventory.
Proof. exact StateInst.store_state_inventory_holds. Qed.
