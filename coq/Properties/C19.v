(* C19 — update hooks: no change un-notified, bursts coalesced, only safe
   files run.  Statements only; proofs in theories/Hooks_proofs.v (the
   notify/timer loop and the eligibility test) and Agent.v (when the
   dispatcher notifies).  Partial (runtime): process start, the one-minute
   kill and wall-clock jitter are observed by the check, not modelled. *)
From Whawty Require Import Bytes Record Store Hooks Hooks_proofs Agent C19_proofs Extracted.
Open Scope N_scope.

Theorem C19_invariant : forall evs s, hinv s -> hinv (fst (hrun s evs)).
Proof. exact hinv_run. Qed.

(* a notification runs the hooks at once or leaves the timer armed with more
   than one pending, so that the next timer event runs them *)
Theorem C19_notify_runs_or_arms : forall s,
  hinv s ->
  let '(s', out) := hstep s HNotify in
  (out = [RunAll (h_store s)] /\ h_pending s = 0) \/
  (out = [] /\ h_armed s' = true /\ 1 < h_pending s').
Proof. exact notify_runs_or_arms. Qed.
Theorem C19_every_notify_covered : forall s evs1,
  hinv s -> Forall (fun e => e <> HTimer) evs1 ->
  let '(s1, o1) := hstep s HNotify in
  let '(s2, os) := hrun s1 evs1 in
  let '(s3, o3) := hstep s2 HTimer in
  o1 <> [] \/ o3 <> [].
Proof. exact every_notify_covered. Qed.
Print Assumptions C19_every_notify_covered.

(* at most two rounds per rate-limit interval, however many notifications *)
Theorem C19_coalesced : forall s evs,
  hinv s -> Forall (fun e => e <> HTimer) evs ->
  let '(s1, os) := hrun s evs in
  let '(s2, o2) := hstep s1 HTimer in
  (rounds os + length o2 <= 2)%nat /\ (h_armed s = true -> (rounds os + length o2 <= 1)%nat).
Proof. exact at_most_two_rounds_per_interval. Qed.
Print Assumptions C19_coalesced.

(* each round is started for the store most recently announced (reload) *)
Theorem C19_round_uses_current_store : forall s e st,
  In (RunAll st) (snd (hstep s e)) -> st = h_store s.
Proof. exact round_uses_current_store. Qed.
Theorem C19_newstore_switches : forall s st,
  h_store (fst (hstep s (HNewStore st))) = st /\ snd (hstep s (HNewStore st)) = [].
Proof. exact newstore_switches. Qed.

(* only eligible files run; nothing from a world-writable directory *)
Theorem C19_only_eligible_run : forall dir_mode entries n,
  In n (hooks_to_run dir_mode entries) <->
  N.land dir_mode 2 = 0 /\ exists e, In e entries /\ e_name e = n /\ eligible e = true.
Proof. exact only_eligible_run. Qed.
Theorem C19_world_writable_runs_nothing : forall dir_mode entries,
  N.land dir_mode 2 <> 0 -> hooks_to_run dir_mode entries = [].
Proof. exact world_writable_runs_nothing. Qed.
Theorem C19_eligible_spec : forall e,
  eligible e = true <->
  (match e_name e with 46 :: _ => False | _ => True end) /\
  (e_type e = TRegular \/ e_type e = TSymlink) /\ N.land (e_mode e) 73 <> 0.
Proof. exact eligible_spec. Qed.
Print Assumptions C19_only_eligible_run.

(* the dispatcher notifies exactly after successful add / update / set-admin
   and after every remove; failed and read-only requests notify nothing
   (init does not notify either) *)
Theorem C19_notify_iff_mutation : forall kdf policy_ok orc ac c d n r c' d' ob notify upg,
  handle_req kdf policy_ok orc ac c d n r = (c', d', ob, notify, upg) ->
  notify = match r with
           | RAdd _ _ _ | RUpdate _ _ | RSetAdmin _ _ => is_ok ob
           | RRemove _ => true
           | _ => false
           end.
Proof. exact notify_iff_mutation. Qed.
Print Assumptions C19_notify_iff_mutation.

(* the rate limit and the kill limit the theorems are about are the ones in the source *)
Theorem C19_extracted_limits : Extracted.hook_rate_limit_ms = 5000 /\ Extracted.hook_kill_ms = 60000.
Proof. split; reflexivity. Qed.

Example C19_nonvacuous :
  snd (hrun (hinit (str "/s")) [HNotify; HNotify; HNotify; HTimer; HNotify; HTimer; HTimer]) =
  [[RunAll (str "/s")]; []; []; [RunAll (str "/s")]; [RunAll (str "/s")]; []; []].
Proof. vm_compute. reflexivity. Qed.

(* ---- the model's state space is the code's declared state ----
   (theories/StateInst.v: package-level variables and struct fields listed by tools/facts on every
   run; the models keep no state between operations other than these components) *)
From Whawty Require StateInst.
Theorem C19_hooks_state_inventory : StateInst.hooks_state_inventory.
Proof. exact StateInst.hooks_state_inventory_holds. Qed.
