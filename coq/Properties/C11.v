(* C11 — concurrent requests are linearizable; acknowledged changes are never
   undone.  Statements only; proofs in theories/Agent_proofs.v.

   The linearisation point of a request is its Handle step.  The theorems say:
   (a) the store and every result are those of the single-threaded execution
   of the handled requests in handling order (log_is_sequential);
   (b) every answer a client receives is the logged result of its own request
   (no cross-talk); (c) for every client the trace reads Call, Enq, Handle,
   Ret, so each Handle lies between the call and the return of its request
   (real-time order); (d) an internal hash upgrade never undoes anything.
   Data-race freedom of the Go code itself is observed with the race detector
   by the check, not proved. *)
From Whawty Require Import Bytes Record Store StoreSpec Store_proofs StoreInv_proofs Agent Agent_proofs AgentInst Extracted.
Open Scope N_scope.

(* the model delivers every result to the client that made the request (LRet follows the log); in the
   code this rests on each request method waiting on a fresh channel of its own, which tools/facts
   extracts on every run *)
Theorem C11_extracted_client_structure :
  Extracted.clients_rendezvous_plain = true /\ Extracted.api_request_methods = 9.
Proof. split; reflexivity. Qed.

Theorem C11_log_is_sequential : forall kdf policy_ok orc ac c d s tr,
  reach kdf policy_ok orc ac c d s tr ->
  seq_replay kdf policy_ok orc ac c d O (rev (a_log s)) = Some (a_cfg s, a_dir s) /\ a_n s = length (a_log s).
Proof. exact log_is_sequential. Qed.
Print Assumptions C11_log_is_sequential.

Theorem C11_ret_matches_log : forall kdf policy_ok orc ac c d s tr cl r res,
  reach kdf policy_ok orc ac c d s tr -> In (LRet cl r res) tr -> In (Some cl, r, res) (a_log s).
Proof. exact ret_matches_log. Qed.
Print Assumptions C11_ret_matches_log.

Theorem C11_client_protocol : forall kdf policy_ok orc ac c d s tr cl,
  reach kdf policy_ok orc ac c d s tr -> client_ok O (filter (concerns cl) tr) = true.
Proof. exact client_protocol. Qed.
Print Assumptions C11_client_protocol.

Theorem C11_handled_once : forall kdf policy_ok orc ac c d s tr,
  reach kdf policy_ok orc ac c d s tr ->
  length (a_log s) = length (filter (fun l => match l with LHandle _ _ => true | _ => false end) tr).
Proof. exact handled_once. Qed.

Theorem C11_waiting_is_queued : forall kdf policy_ok orc ac c d s tr cl r,
  reach kdf policy_ok orc ac c d s tr -> a_cl s cl = CWait r ->
  In (Some cl, r) (a_q s (qof r)) \/ held_by_disp s cl r.
Proof. exact waiting_is_queued. Qed.
Print Assumptions C11_waiting_is_queued.

(* never undone: an internal upgrade (the extracted configuration
   re-authenticates) touches nobody else, and for its user either nothing
   changes or the login password keeps working with the same admin flag and
   no other password starts working *)
Theorem C11_upgrade_never_undoes : forall kdf sha256 policy_ok orc m,
  (forall h s p d, kdf h s p = Some d -> bytes_wf d = true /\ d <> []) ->
  (forall h s p q d, kdf h s p = Some d -> kdf h s q = Some d -> keyeq sha256 h p q = true) ->
  (forall h s p q, keyeq sha256 h p q = true -> kdf h s p = kdf h s q) ->
  forall c d n u pw c' d' res notify,
  cfg_wf c -> oracle_ok (orc n) -> wf_store d ->
  handle_upgrade kdf policy_ok orc (extracted_ac m) c d n u pw = (c', d', res, notify) ->
  c' = c /\
  (forall u' p, u' <> u -> authenticate kdf c d' u' p = authenticate kdf c d u' p) /\
  (d' = d \/
   (exists adm, verdict_of (authenticate kdf c d u pw) = Some adm /\
                verdict_of (authenticate kdf c d' u pw) = Some adm /\
                forall p a, verdict_of (authenticate kdf c d' u p) = Some a ->
                  a = adm /\ exists h, cfg_hasher c (default c) = Some h /\ keyeq sha256 h p pw = true)).
Proof.
  intros kdf sha256 policy_ok orc m Hout Hinj Hresp c d n u pw c' d' res notify.
  exact (upgrade_never_undoes kdf sha256 policy_ok orc (extracted_ac m) Hout Hinj Hresp c d n u pw c' d' res notify (extracted_reauth m)).
Qed.
Print Assumptions C11_upgrade_never_undoes.

(* the repaired defect: without re-authentication a queued upgrade re-stores
   the old password after an acknowledged change *)
Theorem C11_refuted_stale_upgrade :
  exists kdf (c : config) (d : dirst) (o1 o2 : oracle),
    let ac := {| cap := fun _ => 10%nat; cap_notify := 32%nat; cap_remote := 10%nat; mode := ULocal;
                 upgrade_send_blocking := false; local_upgrade_reauth := false |} in
    let orcs := fun n => match n with O => o1 | _ => o2 end in
    let '(c1, d1, r1, _, _) := handle_req kdf (fun _ _ => true) orcs ac c d O (RUpdate (str "u") (str "new")) in
    let '(c2, d2, r2, _) := handle_upgrade kdf (fun _ _ => true) orcs ac c1 d1 1 (str "u") (str "old") in
    r1 = ORes ROk /\
    verdict_of (authenticate kdf c1 d1 (str "u") (str "new")) = Some false /\
    verdict_of (authenticate kdf c2 d2 (str "u") (str "new")) = None /\
    verdict_of (authenticate kdf c2 d2 (str "u") (str "old")) = Some false.
Proof. exact stale_upgrade_refuted. Qed.
Print Assumptions C11_refuted_stale_upgrade.

(* ---- the model's state space is the code's declared state ----
   (theories/StateInst.v: package-level variables and struct fields listed by tools/facts on every
   run; the models keep no state between operations other than these components) *)
From Whawty Require StateInst.
Theorem C11_agent_state_inventory : StateInst.agent_state_inventory.
Proof. exact StateInst.agent_state_inventory_holds. Qed.
