(* C10 — the agent never wedges.  Statements only; proofs in
   theories/Agent_proofs.v, instantiated in theories/AgentInst.v with the
   structure tools/facts extracted from the source (capacities, whether the
   upgrade request is enqueued without blocking).  Every statement holds for
   every scheduler (Go's select = arbitrary choice), every upgrade mode [m],
   every store, policy and oracle stream, any number of clients.

   Partial (runtime): "eventually" is proved as deadlock freedom plus bounded
   service per queue; that Go's randomised select serves every ready queue
   again and again is a property of the Go runtime and is not modelled. *)
From Whawty Require Import Bytes Record Store Agent Agent_proofs AgentInst Extracted.
Open Scope N_scope.

Theorem C10_extracted_structure :
  Extracted.local_upgrade_uses_update_queue = true /\
  Extracted.consumers_touch_dispatcher_chans = 0 /\
  Extracted.dispatcher_foreign_sends = 0 /\
  Extracted.authenticate_other_sends = 0 /\
  Extracted.dispatcher_arms = 10 /\
  (* the client side: every request method waits, unconditionally, on a fresh channel of its own *)
  Extracted.clients_rendezvous_plain = true /\
  Extracted.api_request_methods = 9 /\
  (* the consumer of the dispatcher's blocking sends to the hooks goroutine waits on both channels everywhere *)
  Extracted.hooks_consumer_always_drains = true.
Proof. exact extracted_structure. Qed.

Theorem C10_holds_for_extracted_cfg : forall m,
  caps_ok (extracted_ac m) /\ upgrade_send_blocking (extracted_ac m) = false.
Proof. intros m. split; [exact (extracted_caps_ok m) | exact (extracted_nonblocking m)]. Qed.

(* whenever anything is pending, the system itself can take a step *)
Theorem C10_deadlock_free : forall kdf policy_ok orc m c d s tr,
  reach kdf policy_ok orc (extracted_ac m) c d s tr -> pending s ->
  exists l s', system_label l = true /\ astep kdf policy_ok orc (extracted_ac m) s l s'.
Proof.
  intros kdf policy_ok orc m c d s tr.
  exact (deadlock_free kdf policy_ok orc (extracted_ac m) c d s tr (extracted_caps_ok m) (extracted_nonblocking m)).
Qed.
Print Assumptions C10_deadlock_free.

(* the dispatcher is back at its select after at most two system steps *)
Theorem C10_dispatcher_returns_to_select : forall kdf policy_ok orc m c d s tr,
  reach kdf policy_ok orc (extracted_ac m) c d s tr -> a_disp s <> DIdle ->
  exists ls s', (length ls <= 2)%nat /\ forallb system_label ls = true /\
                runs kdf policy_ok orc (extracted_ac m) s ls s' /\ a_disp s' = DIdle.
Proof.
  intros kdf policy_ok orc m c d s tr.
  exact (dispatcher_returns_to_select kdf policy_ok orc (extracted_ac m) c d s tr (extracted_caps_ok m) (extracted_nonblocking m)).
Qed.
Print Assumptions C10_dispatcher_returns_to_select.

(* it never waits on a channel only it reads from *)
Theorem C10_no_self_wait : forall kdf policy_ok orc m c d s tr,
  reach kdf policy_ok orc (extracted_ac m) c d s tr ->
  match a_disp s with DUpgradeSend _ _ _ _ => False | _ => True end.
Proof.
  intros kdf policy_ok orc m c d s tr.
  exact (no_self_wait kdf policy_ok orc (extracted_ac m) c d s tr (extracted_nonblocking m)).
Qed.
Print Assumptions C10_no_self_wait.

(* queues are bounded and served first-in first-out: a request at position k
   of its queue is answered by the (k+1)-th Handle of that queue *)
Theorem C10_queues_bounded : forall kdf policy_ok orc m c d s tr,
  reach kdf policy_ok orc (extracted_ac m) c d s tr ->
  (forall q, length (a_q s q) <= cap (extracted_ac m) q)%nat /\
  (a_notify s <= cap_notify (extracted_ac m))%nat /\ (a_remote s <= cap_remote (extracted_ac m))%nat.
Proof. intros kdf policy_ok orc m. exact (queues_bounded kdf policy_ok orc (extracted_ac m)). Qed.

Theorem C10_handle_takes_head : forall kdf policy_ok orc ac s q oc s',
  astep kdf policy_ok orc ac s (LHandle q oc) s' ->
  exists r rest res, a_q s q = (oc, r) :: rest /\
    a_log s' = (oc, r, res) :: a_log s /\
    (forall q', q' <> QUpdate -> a_q s' q' = if qid_eqb q q' then rest else a_q s q') /\
    (exists extra, a_q s' QUpdate = (if qid_eqb q QUpdate then rest else a_q s QUpdate) ++ extra).
Proof. exact handle_takes_head. Qed.

Theorem C10_other_steps_keep_queue_prefix : forall kdf policy_ok orc ac s l s' q,
  astep kdf policy_ok orc ac s l s' -> (forall q0 oc, l <> LHandle q0 oc) ->
  exists extra, a_q s' q = a_q s q ++ extra.
Proof. exact other_steps_keep_queue_prefix. Qed.
Print Assumptions C10_handle_takes_head.

(* the repaired defect: with a BLOCKING enqueue in local mode the dispatcher
   wedges for good once its own update queue is full *)
Theorem C10_refuted_blocking_local_upgrade : forall kdf policy_ok orc ac s oc res u pw,
  upgrade_send_blocking ac = true -> mode ac = ULocal ->
  a_disp s = DUpgradeSend oc res u pw -> (cap ac QUpdate <= length (a_q s QUpdate))%nat ->
  wedged kdf policy_ok orc ac s.
Proof. exact blocking_local_upgrade_wedges. Qed.
Print Assumptions C10_refuted_blocking_local_upgrade.

(* ---- the model's state space is the code's declared state ----
   (theories/StateInst.v: package-level variables and struct fields listed by tools/facts on every
   run; the models keep no state between operations other than these components) *)
From Whawty Require StateInst.
Theorem C10_agent_state_inventory : StateInst.agent_state_inventory.
Proof. exact StateInst.agent_state_inventory_holds. Qed.
Theorem C10_hooks_state_inventory : StateInst.hooks_state_inventory.
Proof. exact StateInst.hooks_state_inventory_holds. Qed.
