(* C04 — every frontend returns exactly the store's verdict for the submitted
   credentials.  Statements only (Frontends.v).  The theorems are short - the
   frontends are thin - and fix what "within the transport's limits" means;
   the weight of this property is carried by the differential run, which asks
   all five frontends of the real code and store.Dir.Authenticate the same
   questions. *)
From Whawty Require Import Bytes Frontends Extracted.
Open Scope N_scope.

Notation max := Extracted.max_request_length.

Theorem C04_accepts_iff_store : forall store_ok store_err,
  (forall u p, store_err u p = true -> store_ok u p = false) ->
  forall fe u p, in_limits max fe u p = true ->
  accepts max store_ok store_err fe u p = store_ok (name_of fe u) p.
Proof. intros so se H. exact (accepts_iff_store max so se H). Qed.
Print Assumptions C04_accepts_iff_store.

Theorem C04_error_is_denial : forall store_ok store_err fe u p,
  in_limits max fe u p = true -> store_err (name_of fe u) p = true ->
  accepts max store_ok store_err fe u p = false.
Proof. intros so se. exact (error_is_denial max so se). Qed.
Print Assumptions C04_error_is_denial.

Theorem C04_no_alteration : forall store_ok store_err fe u p,
  in_limits max fe u p = true -> fe <> FLdap ->
  accepts max store_ok store_err fe u p = (if store_err u p then false else store_ok u p).
Proof. intros so se. exact (no_alteration max so se). Qed.
Print Assumptions C04_no_alteration.

Theorem C04_ldap_name : forall u, contains 64 u = false -> name_of FLdap u = u.
Proof. exact ldap_name_is_prefix. Qed.

Example C04_nonvacuous :
  name_of FLdap (str "alice@example.org") = str "alice" /\
  in_limits max FSasl (repeat_byte 97 256) (str "p") = true /\
  in_limits max FSasl (repeat_byte 97 257) (str "p") = false /\
  in_limits max FBasic (str "a:b") (str "p") = false.
Proof. vm_compute. auto. Qed.

(* ---- the model's state space is the code's declared state ----
   (theories/StateInst.v: package-level variables and struct fields listed by tools/facts on every
   run; the models keep no state between operations other than these components) *)
From Whawty Require StateInst.
Theorem C04_agent_state_inventory : StateInst.agent_state_inventory.
Proof. exact StateInst.agent_state_inventory_holds. Qed.
Theorem C04_sasl_state_inventory : StateInst.sasl_state_inventory.
Proof. exact StateInst.sasl_state_inventory_holds. Qed.
