(* C03 — only schema-valid user names are usable; all effects stay inside the
   base directory.  Statements only. *)
From Whawty Require Import Bytes Names Names_proofs Record Store StoreTrace StoreTrace_proofs C03_proofs Extracted.
Open Scope N_scope.

(* the grammar the model enforces is the regular expression in the source *)
Theorem C03_regex_source : Extracted.username_re_src = Names.expected_username_re.
Proof. exact regex_source_is_expected. Qed.

Theorem C03_matcher_is_grammar : forall u, valid_name u = true <-> name_grammar u.
Proof. exact valid_name_iff_grammar. Qed.
Print Assumptions C03_matcher_is_grammar.

(* every store operation given a name outside the grammar fails or is a
   no-op: same configuration, same directory, a refusal as result *)
Theorem C03_invalid_no_effect : forall kdf c d o orc u,
  op_name o = Some u -> valid_name u = false ->
  step kdf c d o orc = (c, d, refusal o).
Proof. exact invalid_name_refused. Qed.
Print Assumptions C03_invalid_no_effect.

(* ... and at system-call level: not a single call is made, whatever fault is injected *)
Theorem C03_invalid_no_syscall : forall kdf ft c d u pw adm o,
  valid_name u = false ->
  p_add kdf ft c d u pw adm o = (RErr, t0 d) /\
  p_update kdf ft c d u pw o = (RErr, t0 d) /\
  p_set_admin ft d u adm = (RErr, t0 d) /\
  p_remove_user ft d u = t0 d.
Proof. exact invalid_name_no_syscall. Qed.
Print Assumptions C03_invalid_no_syscall.

(* what a valid name can never contain: no path separator, no NUL, not
   empty, no leading '.', '-', '_', '@' - so <base>/<name><ext> is one path
   component below the base directory *)
Theorem C03_valid_no_slash : forall u, valid_name u = true -> contains 47 u = false.
Proof. exact valid_name_no_slash. Qed.
Theorem C03_valid_no_nul : forall u, valid_name u = true -> contains 0 u = false.
Proof. exact valid_name_no_nul. Qed.
Theorem C03_valid_nonempty : forall u, valid_name u = true -> u <> [].
Proof. exact valid_name_nonempty. Qed.
Theorem C03_valid_first_char : forall u c r, u = c :: r -> valid_name u = true ->
  c <> 46 /\ c <> 45 /\ c <> 95 /\ c <> 64.
Proof. exact valid_name_not_dot_start. Qed.
Print Assumptions C03_valid_first_char.

(* footprint: whatever the name, password, directory content and injected
   fault, every object created, written, synced, renamed or unlinked is
   <u>.user, <u>.admin, an entry of .tmp, .tmp itself or the base directory -
   and then u is a valid name *)
Theorem C03_footprint_add : forall kdf ft c d u pw adm o,
  let s := snd (p_add kdf ft c d u pw adm o) in
  (events s <> [] -> valid_name u = true) /\ Forall (event_allowed u) (events s).
Proof. exact footprint_add. Qed.
Theorem C03_footprint_update : forall kdf ft c d u pw o,
  let s := snd (p_update kdf ft c d u pw o) in
  (events s <> [] -> valid_name u = true) /\ Forall (event_allowed u) (events s).
Proof. exact footprint_update. Qed.
Theorem C03_footprint_set_admin : forall ft d u adm,
  let s := snd (p_set_admin ft d u adm) in
  (events s <> [] -> valid_name u = true) /\ Forall (event_allowed u) (events s).
Proof. exact footprint_set_admin. Qed.
Theorem C03_footprint_remove : forall ft d u,
  let s := p_remove_user ft d u in
  (events s <> [] -> valid_name u = true) /\ Forall (event_allowed u) (events s).
Proof. exact footprint_remove. Qed.
Print Assumptions C03_footprint_add.
Print Assumptions C03_footprint_remove.

(* the names the property lists are all outside the grammar *)
Example C03_listed_names_invalid :
  forallb (fun u => negb (valid_name u))
    [ []; str "../other/eve"; str "x/../bob"; str "/etc/passwd"; str "-x"; str ".x"; str "_x"; str "@x";
      str "a b"; str "bob" ++ [10]; str "b" ++ [0] ++ str "b"; str ".."; [255] ] = true.
Proof. exact invalid_examples. Qed.

(* ---- the model's state space is the code's declared state ----
   (theories/StateInst.v: package-level variables and struct fields listed by tools/facts on every
   run; the models keep no state between operations other than these components) *)
From Whawty Require StateInst.
Theorem C03_store_state_inventory : StateInst.store_state_inventory.
Proof. exact StateInst.store_state_inventory_holds. Qed.
