(* C08 — a crash at any instant leaves each hash file old-complete or
   new-complete.  Statements only; proofs in theories/Crash_proofs.v.

   Persistence model (Crash.v): data written to an inode is durable only
   after fsync of that inode, until then a crash may leave ANY content in it;
   a directory-entry change is durable only after fsync of its directory, and
   a crash keeps an arbitrary order-preserving sub-sequence of the pending
   changes; a process kill is the instance "nothing is lost".  That kernel
   and file system implement this model is an assumption.

   The theorems are about every event trace that follows the write
   discipline (protocol_prefix_ok: every prefix = every crash instant); the
   model's own add / update programs follow it (C08_*_follows_protocol), and
   the check feeds the traces observed with strace to the same checker. *)
From Whawty Require Import Bytes Record Store StoreTrace Crash Crash_proofs CrashX_proofs Writers Writers_proofs.
Open Scope N_scope.

Theorem C08_crash_safe_prefix : forall f reserve d0 evs c,
  base_quiescent d0 -> target_pre f reserve d0 -> tmp_fresh evs d0 ->
  protocol_prefix_ok f reserve evs = true ->
  crash_of (exec_events d0 evs) c ->
  ( (reserve = true /\ crashed_file c f = None)
    \/ (reserve = true /\ crashed_file c f = Some [])
    \/ (reserve = false /\ crashed_file c f = vol_file d0 f)
    \/ ((exists t, In (ERename (LTmpFile t) (LFile f)) evs) /\ crashed_file c f = Some (tmp_data evs)) )
  /\ (forall g, g <> f -> crashed_file c g = vol_file d0 g).
Proof. exact crash_safe_prefix. Qed.
Print Assumptions C08_crash_safe_prefix.

(* process kill / concurrent readers in other processes: the same possibilities *)
Theorem C08_kill_safe_prefix : forall f reserve d0 evs,
  base_quiescent d0 -> target_pre f reserve d0 -> tmp_fresh evs d0 ->
  protocol_prefix_ok f reserve evs = true ->
  ( (reserve = true /\ vol_file (exec_events d0 evs) f = None)
    \/ (reserve = true /\ vol_file (exec_events d0 evs) f = Some [])
    \/ (reserve = false /\ vol_file (exec_events d0 evs) f = vol_file d0 f)
    \/ ((exists t, In (ERename (LTmpFile t) (LFile f)) evs) /\ vol_file (exec_events d0 evs) f = Some (tmp_data evs)) )
  /\ (forall g, g <> f -> vol_file (exec_events d0 evs) g = vol_file d0 g).
Proof. exact kill_safe_prefix. Qed.
Print Assumptions C08_kill_safe_prefix.

Theorem C08_prefix_closed : forall f reserve l1 l2,
  protocol_prefix_ok f reserve (l1 ++ l2) = true -> protocol_prefix_ok f reserve l1 = true.
Proof. exact protocol_prefix_closed. Qed.

(* the new complete content is the new record followed by the old auxiliary data *)
Theorem C08_add_follows_protocol : forall kdf c d u pw adm o s,
  p_add kdf None c d u pw adm o = (ROk, s) ->
  protocol_complete_ok (u ++ ext_of adm) true (events s) = true.
Proof. exact add_follows_protocol. Qed.
Theorem C08_update_follows_protocol : forall kdf c d u pw o s,
  p_update kdf None c d u pw o = (ROk, s) ->
  exists adm, user_exists d u = ExYes adm /\
    protocol_complete_ok (u ++ ext_of adm) false (events s) = true.
Proof. exact update_follows_protocol. Qed.
Theorem C08_add_new_content : forall kdf c d u pw adm o s,
  p_add kdf None c d u pw adm o = (ROk, s) ->
  exists h hs, cfg_hasher c (default c) = Some h /\ hash_generate kdf h (o_salt o) pw = Some hs /\
    tmp_data (events s) = print_record h (o_ts o) (default c) hs.
Proof. exact add_tmp_data. Qed.
Theorem C08_update_new_content : forall kdf c d u pw o s,
  p_update kdf None c d u pw o = (ROk, s) ->
  exists adm old h hs, user_exists d u = ExYes adm /\ read_file d (u ++ ext_of adm) = Some old /\
    cfg_hasher c (default c) = Some h /\ hash_generate kdf h (o_salt o) pw = Some hs /\
    tmp_data (events s) = print_record h (o_ts o) (default c) hs ++ after_first_line old.
Proof. exact update_tmp_data. Qed.
Print Assumptions C08_add_follows_protocol.
Print Assumptions C08_update_new_content.

(* ---- failing operations ----
   The same guarantee for the discipline extended by the clean-up of an
   operation that fails (protocol_prefix_x_ok: temp file and reservation are
   removed again; an add that fails after the rename withdraws the record),
   and the model's own add / update follow it for EVERY injected fault and
   result. *)
Theorem C08_crash_safe_prefix_x : forall f reserve d0 evs c,
  base_quiescent d0 -> target_pre f reserve d0 -> tmp_fresh evs d0 ->
  protocol_prefix_x_ok f reserve evs = true ->
  crash_of (exec_events d0 evs) c ->
  ( (reserve = true /\ crashed_file c f = None)
    \/ (reserve = true /\ crashed_file c f = Some [])
    \/ (reserve = false /\ crashed_file c f = vol_file d0 f)
    \/ ((exists t, In (ERename (LTmpFile t) (LFile f)) evs) /\ crashed_file c f = Some (tmp_data evs)) )
  /\ (forall g, g <> f -> crashed_file c g = vol_file d0 g).
Proof. exact crash_safe_prefix_x. Qed.
Print Assumptions C08_crash_safe_prefix_x.
Theorem C08_kill_safe_prefix_x : forall f reserve d0 evs,
  base_quiescent d0 -> target_pre f reserve d0 -> tmp_fresh evs d0 ->
  protocol_prefix_x_ok f reserve evs = true ->
  ( (reserve = true /\ vol_file (exec_events d0 evs) f = None)
    \/ (reserve = true /\ vol_file (exec_events d0 evs) f = Some [])
    \/ (reserve = false /\ vol_file (exec_events d0 evs) f = vol_file d0 f)
    \/ ((exists t, In (ERename (LTmpFile t) (LFile f)) evs) /\ vol_file (exec_events d0 evs) f = Some (tmp_data evs)) )
  /\ (forall g, g <> f -> vol_file (exec_events d0 evs) g = vol_file d0 g).
Proof. exact kill_safe_prefix_x. Qed.
Print Assumptions C08_kill_safe_prefix_x.
Theorem C08_prefix_x_extends : forall f reserve evs,
  protocol_prefix_ok f reserve evs = true -> protocol_prefix_x_ok f reserve evs = true.
Proof. exact protocol_prefix_x_of_prefix. Qed.
Theorem C08_prefix_x_closed : forall f reserve l1 l2,
  protocol_prefix_x_ok f reserve (l1 ++ l2) = true -> protocol_prefix_x_ok f reserve l1 = true.
Proof. exact protocol_prefix_x_closed. Qed.
Theorem C08_add_follows_protocol_any_fault : forall kdf ft c d u pw adm o r s,
  p_add kdf ft c d u pw adm o = (r, s) ->
  protocol_prefix_x_ok (u ++ ext_of adm) true (events s) = true.
Proof. exact add_follows_protocol_x. Qed.
Theorem C08_update_follows_protocol_any_fault : forall kdf ft c d u pw o r s adm,
  p_update kdf ft c d u pw o = (r, s) -> user_exists d u = ExYes adm ->
  protocol_prefix_x_ok (u ++ ext_of adm) false (events s) = true.
Proof. exact update_follows_protocol_x. Qed.
Print Assumptions C08_add_follows_protocol_any_fault.
Print Assumptions C08_update_follows_protocol_any_fault.

Example C08_nonvacuous :
  protocol_complete_ok (str "bob.user") true
    [ECreate (LFile (str "bob.user")); EMkdir LTmpDir; ECreate (LTmpFile (str "t1"));
     EWrite (LTmpFile (str "t1")) (str "line"); EFsync (LTmpFile (str "t1"));
     ERename (LTmpFile (str "t1")) (LFile (str "bob.user")); EFsync LBaseDir] = true /\
  protocol_prefix_ok (str "bob.user") true
    [ECreate (LFile (str "bob.user")); ECreate (LTmpFile (str "t1"));
     ERename (LTmpFile (str "t1")) (LFile (str "bob.user"))] = false /\
  (* a failing add cleans up; an in-place rewrite of a live file is not accepted *)
  protocol_prefix_x_ok (str "bob.user") true
    [ECreate (LFile (str "bob.user")); ECreate (LTmpFile (str "t1")); EWrite (LTmpFile (str "t1")) (str "li");
     EUnlink (LTmpFile (str "t1")); EUnlink (LFile (str "bob.user"))] = true /\
  protocol_prefix_x_ok (str "bob.user") false
    [ECreate (LTmpFile (str "t1")); EWrite (LTmpFile (str "t1")) (str "line"); EFsync (LTmpFile (str "t1"));
     EWrite (LFile (str "bob.user")) (str "line")] = false.
Proof. vm_compute. auto. Qed.

(* ---- several writer PROCESSES on one directory (the agent and the command line, two agents) ----
   "Concurrent readers in other processes see the same three possibilities" - also when the other
   process is a second WRITER.  Each process runs the write discipline (any prefix of it, clean-up
   included); the directory sees an arbitrary interleaving (merge) of their system calls.  The one
   premise that ties the two together is that they never use the same temp name - which is what
   O_EXCL on the temp file provides and what every traced add / update is checked for
   (tracedriver: "opened with O_CREAT but without O_EXCL").  Volatile view only (process kills);
   power loss with two writers in flight is not covered. *)
Theorem C08_two_updaters_kill_safe : forall f d0 evs1 evs2 evs,
  base_quiescent d0 -> target_pre f false d0 ->
  protocol_prefix_x_ok f false evs1 = true -> protocol_prefix_x_ok f false evs2 = true ->
  tmp_fresh evs1 d0 -> tmp_fresh evs2 d0 -> tmp_disjoint evs1 evs2 ->
  merge evs1 evs2 evs ->
  ( vol_file (exec_events d0 evs) f = vol_file d0 f
    \/ (renamed_into f evs1 /\ vol_file (exec_events d0 evs) f = Some (tmp_data evs1))
    \/ (renamed_into f evs2 /\ vol_file (exec_events d0 evs) f = Some (tmp_data evs2)) )
  /\ (forall g, g <> f -> vol_file (exec_events d0 evs) g = vol_file d0 g).
Proof. exact two_updaters_kill_safe. Qed.
Print Assumptions C08_two_updaters_kill_safe.

Theorem C08_two_writers_distinct_kill_safe : forall f1 rv1 f2 rv2 d0 evs1 evs2 evs,
  base_quiescent d0 -> f1 <> f2 -> target_pre f1 rv1 d0 -> target_pre f2 rv2 d0 ->
  protocol_prefix_x_ok f1 rv1 evs1 = true -> protocol_prefix_x_ok f2 rv2 evs2 = true ->
  tmp_fresh evs1 d0 -> tmp_fresh evs2 d0 -> tmp_disjoint evs1 evs2 ->
  merge evs1 evs2 evs ->
  vol_file (exec_events d0 evs) f1 = vol_file (exec_events d0 evs1) f1 /\
  vol_file (exec_events d0 evs) f2 = vol_file (exec_events d0 evs2) f2 /\
  (forall g, g <> f1 -> g <> f2 -> vol_file (exec_events d0 evs) g = vol_file d0 g).
Proof. exact two_writers_distinct_kill_safe. Qed.
Print Assumptions C08_two_writers_distinct_kill_safe.

Example C08_two_updaters_example :
  let f := str "u.user" in
  let w (t data : bytes) := [ECreate (LTmpFile t); EWrite (LTmpFile t) data; EFsync (LTmpFile t);
                   ERename (LTmpFile t) (LFile f); EFsync LBaseDir; EUnlink (LTmpFile t)] in
  protocol_prefix_x_ok f false (w (str "t1") (str "one")) = true /\
  protocol_prefix_x_ok f false (w (str "t2") (str "two")) = true /\
  tmp_disjoint (w (str "t1") (str "one")) (w (str "t2") (str "two")).
Proof. exact two_updaters_example. Qed.

(* ---- the model's state space is the code's declared state ----
   (theories/StateInst.v: package-level variables and struct fields listed by tools/facts on every
   run; the models keep no state between operations other than these components) *)
From Whawty Require StateInst.
Theorem C08_store_state_inventory : StateInst.store_state_inventory.
Proof. exact StateInst.store_state_inventory_holds. Qed.
