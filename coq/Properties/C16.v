(* C16 — the consistency check is exact, for every listing order.
   Statements only; proofs in theories/StoreOps_proofs.v. *)
From Whawty Require Import Bytes Names Record Store StoreOps_proofs.
From Coq Require Import Permutation.
Open Scope N_scope.

(* accepted exactly when every entry other than .tmp is <name>.user or
   <name>.admin, no name has both, and some .admin file holds a supported
   hash - whatever order the operating system lists the directory in *)
Theorem C16_check_exact : forall c d listing,
  NoDup (keys d) -> names_ok d -> Permutation listing d ->
  (check_loop c d listing false = true <-> spec_valid c d).
Proof. exact check_exact. Qed.
Print Assumptions C16_check_exact.

Theorem C16_init_only_if_empty : forall kdf c d u pw o d',
  init_store kdf c d u pw o = (d', ROk) -> d = [] \/ exists k, d = [(tmp_name, Dir k)].
Proof. exact init_only_if_empty. Qed.
Print Assumptions C16_init_only_if_empty.
