(* C16 — the consistency check is exact, for every listing order.
   Statements only; proofs in theories/StoreOps_proofs.v. *)
From Whawty Require Import Bytes Names Record Store StoreOps_proofs Store_proofs StoreInv_proofs.
From Coq Require Import Permutation.
Open Scope N_scope.

(* accepted exactly when every entry other than .tmp is <name>.user or
   <name>.admin, no name has both, and some .admin file holds a supported
   hash - whatever order the operating system lists the directory in *)
Theorem C16_check_exact : forall c d listing,
  NoDup (keys d) -> names_ok d -> Permutation listing d ->
  (check_loop c d listing false = true <-> spec_valid c d).
Proof. exact check_exact. Qed.
Print Assumptions C16_check_exact.

Theorem C16_init_only_if_empty : forall kdf c d u pw o d',
  init_store kdf c d u pw o = (d', ROk) -> d = [] \/ exists k, d = [(tmp_name, Dir k)].
Proof. exact init_only_if_empty. Qed.
Print Assumptions C16_init_only_if_empty.

(* ---- histories from a valid store ---- *)
Section C16.
  Variable kdf : hasher -> bytes -> bytes -> option bytes.
  Hypothesis kdf_out : forall h s p d, kdf h s p = Some d -> bytes_wf d = true /\ d <> [].

  (* never two files for one user; the work area is empty after every
     completed operation - whether it succeeded or failed *)
  Theorem C16_step_preserves_wf : forall c d o orc,
    wf_store d -> wf_store (dir_of (step kdf c d o orc)).
  Proof. exact (step_preserves_wf kdf). Qed.

  (* every operation that does not remove or demote the last administrator
     keeps the store valid *)
  Theorem C16_step_preserves_valid : forall c d o orc,
    cfg_wf c -> oracle_ok orc -> wf_store d -> spec_valid c d ->
    (forall u, o = OpRemove u \/ o = OpSetAdmin u false ->
       exists u0 content, u0 <> u /\ dlookup (u0 ++ ext_admin) d = Some (File content) /\
                          is_supported c content = true) ->
    spec_valid (cfg_of (step kdf c d o orc)) (dir_of (step kdf c d o orc)).
  Proof. exact (step_preserves_valid kdf kdf_out). Qed.

  Theorem C16_history_preserves_valid : forall hs c d,
    cfg_wf c -> wf_store d -> spec_valid c d -> safe_history kdf c d hs ->
    let '(c', d') := run kdf c d hs in
    wf_store d' /\ spec_valid c' d'.
  Proof. exact (history_preserves_valid kdf kdf_out). Qed.

  Theorem C16_init_produces_valid : forall c u pw o d',
    cfg_wf c -> oracle_ok o ->
    init_store kdf c [] u pw o = (d', ROk) -> wf_store d' /\ spec_valid c d'.
  Proof. exact (init_produces_valid kdf kdf_out). Qed.
End C16.
Print Assumptions C16_step_preserves_wf.
Print Assumptions C16_step_preserves_valid.
Print Assumptions C16_history_preserves_valid.
Print Assumptions C16_init_produces_valid.

(* non-vacuity: a valid store exists, and the check accepts it in both listing orders *)
Definition toy_kdf (h : hasher) (s p : bytes) : option bytes := Some (5 :: p ++ s).
Definition toy_cfg : config := {| params := [(1, HArgon 1 8 1 16)]; default := 1 |}.
Definition toy_orc (t : Z) (s : bytes) : oracle := {| o_ts := t; o_salt := s; o_tmp := str "t"; o_order := [] |}.
Example C16_nonvacuous :
  let d1 := fst (init_store toy_kdf toy_cfg [] (str "root") (str "pw") (toy_orc 10 [1])) in
  let d2 := fst (add_user toy_kdf toy_cfg d1 (str "bob") (str "pw2") false (toy_orc 11 [2])) in
  check_loop toy_cfg d2 d2 false = true /\ check_loop toy_cfg d2 (rev d2) false = true /\
  check_loop toy_cfg d2 (remove_user d2 (str "root")) false = false.
Proof. vm_compute. auto. Qed.

(* ---- the model's state space is the code's declared state ----
   (theories/StateInst.v: package-level variables and struct fields listed by tools/facts on every
   run; the models keep no state between operations other than these components) *)
From Whawty Require StateInst.
Theorem C16_store_state_inventory : StateInst.store_state_inventory.
Proof. exact StateInst.store_state_inventory_holds. Qed.
Theorem C16_agent_state_inventory : StateInst.agent_state_inventory.
Proof. exact StateInst.agent_state_inventory_holds. Qed.
