#!/bin/bash
# combine the latest sweep results of all rounds into one log for tools/seedmeta.py (later files win)
cd "$(dirname "$0")/.."
python3 - "$@" <<'PY'
import re,sys
res={}
for f in sys.argv[1:]:
    try:
        for l in open(f):
            m=re.match(r'(C\d\d(?:-\d+)?) exit=', l)
            if m: res[m.group(1)]=l.rstrip('\n')
    except OSError:
        pass
def key(k):
    p=k.split('-'); return (p[0], int(p[1]) if len(p)>1 else 1)
for k in sorted(res,key=key): print(res[k])
PY
