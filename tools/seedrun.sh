#!/bin/bash
# seedrun.sh <patch.diff> <Cnn> [Cmm ...] : apply a seeded change to /repo's working tree, run the
# quick checks of the named properties, restore the tree.  Never commits.
set -u
PATCH=$1; shift
cd /repo; git diff --quiet || { echo "/repo not clean"; exit 2; }
git apply $PATCH || exit 2
# the evidence files describe clean-tree runs: keep them out of the way of the seeded run
EVB=$(mktemp -d /tmp/evidence-backup.XXXXXX); cp -a /verif/evidence/. $EVB/
trap 'git -C /repo checkout -- . ; git -C /repo status --short | head; cp -a $EVB/. /verif/evidence/; rm -rf $EVB' EXIT
for p in "$@"; do
  /verif/check $p --tier ${TIER:-quick} > /tmp/seedrun.$p.log 2>&1; rc=$?
  echo "== $p exit=$rc"; grep -E '^(VIOLATION|KNOWN-FINDING)' /tmp/seedrun.$p.log | cut -c1-400
done
