// facts: regenerates coq/theories/Extracted.v from the working tree of the
// repository under verification.  Standard library only (go/parser, go/ast).
//
// It extracts (a) the constants the Coq theorems are instantiated with and
// (b) a few structural facts about the dispatcher that decide the
// concurrency properties.  Every fact that cannot be found is reported as
// "fact not found" (exit 2) - distinct from a fact whose value changed, which
// simply shows up as a different value in Extracted.v and breaks a proof
// obligation there.
package main

import (
	"fmt"
	"go/ast"
	"go/parser"
	"go/printer"
	"go/token"
	"os"
	"path/filepath"
	"regexp"
	"sort"
	"strconv"
	"strings"
)

type facts struct {
	lines   []string
	missing []string
}

func san(src string) string {
	return strings.ReplaceAll(strings.ReplaceAll(src, "(*", "(ptr "), "*)", ")")
}

func (f *facts) n(name string, v int64, src string) {
	src = san(src)
	f.lines = append(f.lines, fmt.Sprintf("Definition %s : N := %d%%N. (* %s *)", name, v, src))
}
func (f *facts) s(name string, v string, src string) {
	src = san(src)
	f.lines = append(f.lines, fmt.Sprintf("Definition %s : string := \"%s\"%%string. (* %s *)", name, strings.ReplaceAll(v, "\"", "\"\""), src))
}
func (f *facts) b(name string, v bool, src string) {
	src = san(src)
	f.lines = append(f.lines, fmt.Sprintf("Definition %s : bool := %t. (* %s *)", name, v, src))
}
func (f *facts) miss(name string) { f.missing = append(f.missing, name) }

type pkg struct {
	fset  *token.FileSet
	files map[string]*ast.File
}

func load(dir string) *pkg {
	fset := token.NewFileSet()
	p := &pkg{fset: fset, files: map[string]*ast.File{}}
	ents, err := os.ReadDir(dir)
	if err != nil {
		fmt.Fprintf(os.Stderr, "facts: %v\n", err)
		os.Exit(2)
	}
	for _, e := range ents {
		n := e.Name()
		if e.IsDir() || !strings.HasSuffix(n, ".go") || strings.HasSuffix(n, "_test.go") {
			continue
		}
		af, err := parser.ParseFile(fset, filepath.Join(dir, n), nil, 0)
		if err != nil {
			fmt.Fprintf(os.Stderr, "facts: %v\n", err)
			os.Exit(2)
		}
		p.files[n] = af
	}
	return p
}

func (p *pkg) sortedFiles() []*ast.File {
	var names []string
	for n := range p.files {
		names = append(names, n)
	}
	sort.Strings(names)
	var out []*ast.File
	for _, n := range names {
		out = append(out, p.files[n])
	}
	return out
}

// value of a package-level const or var initialiser
func (p *pkg) topValue(name string) ast.Expr {
	for _, af := range p.sortedFiles() {
		for _, d := range af.Decls {
			gd, ok := d.(*ast.GenDecl)
			if !ok {
				continue
			}
			for _, sp := range gd.Specs {
				vs, ok := sp.(*ast.ValueSpec)
				if !ok {
					continue
				}
				for i, id := range vs.Names {
					if id.Name == name && i < len(vs.Values) {
						return vs.Values[i]
					}
				}
			}
		}
	}
	return nil
}

// funcAny: the function or method called name, whatever its receiver (a plain function may become a
// method in a refactoring without changing what it does)
func (p *pkg) funcAny(name string) *ast.FuncDecl {
	for _, af := range p.sortedFiles() {
		for _, d := range af.Decls {
			if fd, ok := d.(*ast.FuncDecl); ok && fd.Name.Name == name && fd.Body != nil {
				return fd
			}
		}
	}
	return nil
}

func (p *pkg) funcDecl(recv, name string) *ast.FuncDecl {
	for _, af := range p.sortedFiles() {
		for _, d := range af.Decls {
			fd, ok := d.(*ast.FuncDecl)
			if !ok || fd.Name.Name != name {
				continue
			}
			r := ""
			if fd.Recv != nil && len(fd.Recv.List) == 1 {
				t := fd.Recv.List[0].Type
				if st, ok := t.(*ast.StarExpr); ok {
					t = st.X
				}
				if id, ok := t.(*ast.Ident); ok {
					r = id.Name
				}
			}
			if r == recv {
				return fd
			}
		}
	}
	return nil
}

// integer value of a literal expression; durations are returned in
// milliseconds (time.Second, time.Minute, time.Millisecond understood)
func evalInt(e ast.Expr) (int64, bool) {
	switch x := e.(type) {
	case *ast.BasicLit:
		if x.Kind == token.INT {
			v, err := strconv.ParseInt(x.Value, 0, 64)
			return v, err == nil
		}
	case *ast.ParenExpr:
		return evalInt(x.X)
	case *ast.SelectorExpr:
		if id, ok := x.X.(*ast.Ident); ok && id.Name == "time" {
			switch x.Sel.Name {
			case "Millisecond":
				return 1, true
			case "Second":
				return 1000, true
			case "Minute":
				return 60000, true
			case "Hour":
				return 3600000, true
			}
		}
	case *ast.BinaryExpr:
		a, ok1 := evalInt(x.X)
		b, ok2 := evalInt(x.Y)
		if ok1 && ok2 {
			switch x.Op {
			case token.MUL:
				return a * b, true
			case token.ADD:
				return a + b, true
			case token.SUB:
				return a - b, true
			}
		}
	}
	return 0, false
}

func evalString(e ast.Expr) (string, bool) {
	if bl, ok := e.(*ast.BasicLit); ok && bl.Kind == token.STRING {
		s, err := strconv.Unquote(bl.Value)
		return s, err == nil
	}
	return "", false
}

func exprString(e ast.Expr) string {
	switch x := e.(type) {
	case *ast.Ident:
		return x.Name
	case *ast.SelectorExpr:
		return exprString(x.X) + "." + x.Sel.Name
	case *ast.StarExpr:
		return "*" + exprString(x.X)
	case *ast.CallExpr:
		return exprString(x.Fun) + "()"
	}
	return fmt.Sprintf("%T", e)
}

// capacity argument of `lhs = make(chan T, n)` / `lhs := make(chan T, n)` inside fn
func chanCap(fn *ast.FuncDecl, lhs string) (int64, bool) {
	var val int64
	found := false
	if fn == nil {
		return 0, false
	}
	ast.Inspect(fn, func(n ast.Node) bool {
		as, ok := n.(*ast.AssignStmt)
		if !ok || len(as.Lhs) != 1 || len(as.Rhs) != 1 {
			return true
		}
		if exprString(as.Lhs[0]) != lhs {
			return true
		}
		call, ok := as.Rhs[0].(*ast.CallExpr)
		if !ok {
			return true
		}
		if id, ok := call.Fun.(*ast.Ident); !ok || id.Name != "make" {
			return true
		}
		if _, ok := call.Args[0].(*ast.ChanType); !ok {
			return true
		}
		if len(call.Args) == 1 {
			val, found = 0, true
		} else if v, ok := evalInt(call.Args[1]); ok {
			val, found = v, true
		}
		return true
	})
	return val, found
}

// right-hand side integer of `lhs = <expr>` inside fn
func assignedInt(fn *ast.FuncDecl, lhs string) (int64, bool) {
	var val int64
	found := false
	if fn == nil {
		return 0, false
	}
	ast.Inspect(fn, func(n ast.Node) bool {
		as, ok := n.(*ast.AssignStmt)
		if !ok || len(as.Lhs) != 1 || len(as.Rhs) != 1 {
			return true
		}
		if exprString(as.Lhs[0]) == lhs {
			if v, ok := evalInt(as.Rhs[0]); ok {
				val, found = v, true
			}
		}
		return true
	})
	return val, found
}

// first integer argument of a call to `callee` inside fn (argument index idx)
func callArgInt(fn *ast.FuncDecl, callee string, idx int) (int64, bool) {
	var val int64
	found := false
	if fn == nil {
		return 0, false
	}
	ast.Inspect(fn, func(n ast.Node) bool {
		call, ok := n.(*ast.CallExpr)
		if !ok || found {
			return true
		}
		if exprString(call.Fun) == callee && idx < len(call.Args) {
			if v, ok := evalInt(call.Args[idx]); ok {
				val, found = v, true
			}
		}
		return true
	})
	return val, found
}

// ---- structural facts about the dispatcher (package main, store.go) ----

// sendsIn collects channel sends in a node: target expression and whether the
// send is a CommClause of a select that has a default clause (non-blocking).
type sendFact struct {
	target      string
	nonblocking bool
}

func sendsIn(n ast.Node) []sendFact {
	var out []sendFact
	nonblockingSends := map[*ast.SendStmt]bool{}
	ast.Inspect(n, func(m ast.Node) bool {
		sel, ok := m.(*ast.SelectStmt)
		if !ok {
			return true
		}
		hasDefault := false
		for _, c := range sel.Body.List {
			if cc := c.(*ast.CommClause); cc.Comm == nil {
				hasDefault = true
			}
		}
		if hasDefault {
			for _, c := range sel.Body.List {
				cc := c.(*ast.CommClause)
				if ss, ok := cc.Comm.(*ast.SendStmt); ok {
					nonblockingSends[ss] = true
				}
			}
		}
		return true
	})
	ast.Inspect(n, func(m ast.Node) bool {
		if ss, ok := m.(*ast.SendStmt); ok {
			out = append(out, sendFact{exprString(ss.Chan), nonblockingSends[ss]})
		}
		return true
	})
	return out
}

// callsIn: names of functions/methods called inside a node (selector form kept)
func callsIn(n ast.Node) []string {
	var out []string
	ast.Inspect(n, func(m ast.Node) bool {
		if c, ok := m.(*ast.CallExpr); ok {
			out = append(out, exprString(c.Fun))
		}
		return true
	})
	return out
}

func has(list []string, s string) bool {
	for _, x := range list {
		if x == s {
			return true
		}
	}
	return false
}

// ---------- inventories of declared state ----------
// The models describe every object by a fixed set of state components (the store: the directory and the
// configured parameter sets; the agent: configuration, queues, policy, hooks; a session factory: key and
// lifetime; ...) and keep NO other state between operations.  These facts list what the code declares:
// package-level variables and the fields of the structs the models describe.  A cache, a pool, a
// counter or a remembered pointer added anywhere changes a fact and so a proof obligation.
func (p *pkg) typeString(e ast.Expr) string {
	var b strings.Builder
	if err := printer.Fprint(&b, p.fset, e); err != nil {
		return exprString(e)
	}
	return strings.Join(strings.Fields(b.String()), " ")
}

func (p *pkg) pkgVars() string {
	var out []string
	for _, af := range p.sortedFiles() {
		for _, d := range af.Decls {
			gd, ok := d.(*ast.GenDecl)
			if !ok || gd.Tok != token.VAR {
				continue
			}
			for _, sp := range gd.Specs {
				vs, ok := sp.(*ast.ValueSpec)
				if !ok {
					continue
				}
				for i, id := range vs.Names {
					t := ""
					if vs.Type != nil {
						t = p.typeString(vs.Type)
					} else if i < len(vs.Values) {
						if call, ok := vs.Values[i].(*ast.CallExpr); ok {
							t = "= " + p.typeString(call.Fun) + "(...)"
						} else {
							t = "= " + p.typeString(vs.Values[i])
						}
					}
					if len(t) > 60 {
						t = t[:60]
					}
					out = append(out, id.Name+" "+t)
				}
			}
		}
	}
	sort.Strings(out)
	return strings.Join(out, "; ")
}

func (p *pkg) structFields(name string) (string, bool) {
	for _, af := range p.sortedFiles() {
		for _, d := range af.Decls {
			gd, ok := d.(*ast.GenDecl)
			if !ok || gd.Tok != token.TYPE {
				continue
			}
			for _, sp := range gd.Specs {
				ts, ok := sp.(*ast.TypeSpec)
				if !ok || ts.Name.Name != name {
					continue
				}
				stt, ok := ts.Type.(*ast.StructType)
				if !ok {
					return "", false
				}
				var out []string
				for _, fl := range stt.Fields.List {
					t := p.typeString(fl.Type)
					if len(fl.Names) == 0 {
						out = append(out, "(embedded) "+t)
					}
					for _, id := range fl.Names {
						out = append(out, id.Name+" "+t)
					}
				}
				return strings.Join(out, "; "), true
			}
		}
	}
	return "", false
}

func (f *facts) inventory(p *pkg, pkgName string, structs ...string) {
	f.s("state_"+pkgName+"_package_vars", p.pkgVars(), "package-level variables of package "+pkgName)
	for _, sn := range structs {
		if v, ok := p.structFields(sn); ok {
			f.s("state_"+pkgName+"_"+sn, v, "fields of "+pkgName+"."+sn)
		} else {
			f.miss("struct " + pkgName + "." + sn)
		}
	}
}

func main() {
	if len(os.Args) != 3 {
		fmt.Fprintln(os.Stderr, "usage: facts <repo> <out.v>")
		os.Exit(2)
	}
	repo, out := os.Args[1], os.Args[2]
	f := &facts{}

	// ---------- package sasl ----------
	sasl := load(filepath.Join(repo, "sasl"))
	if v, ok := evalInt(orNil(sasl.topValue("MaxRequestLength"))); ok {
		f.n("max_request_length", v, "sasl.MaxRequestLength")
	} else {
		f.miss("sasl.MaxRequestLength")
	}

	// ---------- pam/pam_whawty.c ----------
	if src, err := os.ReadFile(filepath.Join(repo, "pam", "pam_whawty.c")); err == nil {
		re := regexp.MustCompile(`(?m)^#define\s+WHAWTY_REQUEST_MAX_PARTLEN\s+(\d+)\s*$`)
		if m := re.FindSubmatch(src); m != nil {
			v, _ := strconv.ParseInt(string(m[1]), 10, 64)
			f.n("pam_max_partlen", v, "pam_whawty.c WHAWTY_REQUEST_MAX_PARTLEN")
		} else {
			f.miss("WHAWTY_REQUEST_MAX_PARTLEN")
		}
		re2 := regexp.MustCompile(`ctx->timeout_\s*=\s*(\d+)\s*;`)
		if m := re2.FindSubmatch(src); m != nil {
			v, _ := strconv.ParseInt(string(m[1]), 10, 64)
			f.n("pam_default_timeout", v, "pam_whawty.c _whawty_ctx_init timeout_")
		} else {
			f.miss("pam default timeout")
		}
		re3 := regexp.MustCompile(`strncmp\("OK",\s*response,\s*(\d+)\)`)
		if m := re3.FindSubmatch(src); m != nil {
			v, _ := strconv.ParseInt(string(m[1]), 10, 64)
			f.n("pam_ok_cmp_len", v, "pam_whawty.c strncmp(\"OK\", response, n)")
		} else {
			f.miss("pam strncmp OK")
		}
	} else {
		f.miss("pam/pam_whawty.c")
	}

	// ---------- package store ----------
	st := load(filepath.Join(repo, "store"))
	for _, c := range []struct{ coq, goName string }{{"admin_ext", "adminExt"}, {"user_ext", "userExt"}, {"tmp_dir", "tmpDir"}} {
		if v, ok := evalString(orNil(st.topValue(c.goName))); ok {
			f.s(c.coq, v, "store."+c.goName)
		} else {
			f.miss("store." + c.goName)
		}
	}
	if call, ok := orNil(st.topValue("userNameRe")).(*ast.CallExpr); ok && len(call.Args) == 1 {
		if v, ok := evalString(call.Args[0]); ok {
			f.s("username_re_src", v, "store.userNameRe")
		} else {
			f.miss("store.userNameRe")
		}
	} else {
		f.miss("store.userNameRe")
	}
	// argon2id salt size: `salt := make([]byte, 16)` in Argon2IDHasher.Generate
	if fn := st.funcDecl("Argon2IDHasher", "Generate"); fn != nil {
		found := false
		ast.Inspect(fn, func(n ast.Node) bool {
			as, ok := n.(*ast.AssignStmt)
			if !ok || len(as.Lhs) != 1 || exprString(as.Lhs[0]) != "salt" {
				return true
			}
			if call, ok := as.Rhs[0].(*ast.CallExpr); ok && exprString(call.Fun) == "make" && len(call.Args) == 2 {
				if v, ok := evalInt(call.Args[1]); ok && !found {
					f.n("argon2id_salt_len", v, "store.Argon2IDHasher.Generate salt size")
					found = true
				}
			}
			return true
		})
		if !found {
			f.miss("argon2id salt size")
		}
	} else {
		f.miss("Argon2IDHasher.Generate")
	}

	// ---------- package main (cmd/whawty-auth) ----------
	m := load(filepath.Join(repo, "cmd", "whawty-auth"))
	ns := m.funcDecl("", "NewStore")
	for _, ch := range []string{"initChan", "checkChan", "addChan", "removeChan", "updateChan", "setAdminChan", "listChan", "listFullChan", "authenticateChan"} {
		if v, ok := chanCap(ns, "s."+ch); ok {
			f.n("cap_"+ch, v, "main.NewStore make(chan, n)")
		} else {
			f.miss("cap of s." + ch)
		}
	}
	nh := m.funcDecl("", "NewHooksCaller")
	if v, ok := chanCap(nh, "h.Notify"); ok {
		f.n("cap_hooks_notify", v, "main.NewHooksCaller")
	} else {
		f.miss("cap of h.Notify")
	}
	if v, ok := chanCap(nh, "h.NewStore"); ok {
		f.n("cap_hooks_newstore", v, "main.NewHooksCaller")
	} else {
		f.miss("cap of h.NewStore")
	}
	if v, ok := assignedInt(nh, "h.rateLimit"); ok {
		f.n("hook_rate_limit_ms", v, "main.NewHooksCaller rateLimit")
	} else {
		f.miss("h.rateLimit")
	}
	if v, ok := callArgInt(m.funcAny("runHook"), "time.NewTimer", 0); ok {
		f.n("hook_kill_ms", v, "main.runHook time.NewTimer")
	} else {
		f.miss("runHook kill timer")
	}
	if v, ok := chanCap(m.funcDecl("", "runRemoteUpgrader"), "upgradeChan"); ok {
		f.n("cap_remote_upgrade", v, "main.runRemoteUpgrader")
	} else {
		f.miss("cap of remote upgradeChan")
	}
	if v, ok := chanCap(m.funcDecl("", "remoteHTTPUpgrader"), "sem"); ok {
		f.n("cap_remote_sem", v, "main.remoteHTTPUpgrader")
	} else {
		f.miss("cap of remote sem")
	}
	if v, ok := callArgInt(m.funcDecl("", "newWebHandler"), "NewWebSessionFactory", 0); ok {
		f.n("session_lifetime_ms", v, "main.newWebHandler NewWebSessionFactory(lifetime)")
	} else {
		f.miss("session lifetime")
	}
	// AES key size of the session factory: key := make([]byte, 16)
	if fn := m.funcDecl("", "NewWebSessionFactory"); fn != nil {
		found := false
		ast.Inspect(fn, func(n ast.Node) bool {
			as, ok := n.(*ast.AssignStmt)
			if !ok || len(as.Lhs) != 1 || exprString(as.Lhs[0]) != "key" {
				return true
			}
			if call, ok := as.Rhs[0].(*ast.CallExpr); ok && exprString(call.Fun) == "make" && len(call.Args) == 2 {
				if v, ok := evalInt(call.Args[1]); ok && !found {
					f.n("session_key_len", v, "main.NewWebSessionFactory key size")
					found = true
				}
			}
			return true
		})
		if !found {
			f.miss("session key size")
		}
	} else {
		f.miss("NewWebSessionFactory")
	}

	// structural: how does NewStore set upgradeChan in "local" mode?
	if ns != nil {
		aliases := false
		foundSwitch := false
		ast.Inspect(ns, func(n ast.Node) bool {
			cc, ok := n.(*ast.CaseClause)
			if !ok || len(cc.List) != 1 {
				return true
			}
			if s, ok := evalString(cc.List[0]); ok && s == "local" {
				foundSwitch = true
				for _, stmt := range cc.Body {
					if as, ok := stmt.(*ast.AssignStmt); ok && len(as.Lhs) == 1 && len(as.Rhs) == 1 &&
						exprString(as.Lhs[0]) == "s.upgradeChan" && exprString(as.Rhs[0]) == "s.updateChan" {
						aliases = true
					}
				}
			}
			return true
		})
		if foundSwitch {
			f.b("local_upgrade_uses_update_queue", aliases, "main.NewStore case \"local\": s.upgradeChan = s.updateChan")
		} else {
			f.miss("NewStore case \"local\"")
		}
	} else {
		f.miss("NewStore")
	}

	// structural: the send of an upgrade request in (*store).authenticate
	if fn := m.funcDecl("store", "authenticate"); fn != nil {
		sends := sendsIn(fn)
		n := 0
		nb := true
		for _, s := range sends {
			if s.target == "s.upgradeChan" {
				n++
				nb = nb && s.nonblocking
			}
		}
		if n >= 1 {
			f.b("upgrade_enqueue_nonblocking", nb, "(*store).authenticate: s.upgradeChan <- ... inside select with default")
		} else {
			f.miss("(*store).authenticate: send to s.upgradeChan")
		}
		f.n("authenticate_other_sends", int64(len(sends)-n), "(*store).authenticate: sends to other channels")
	} else {
		f.miss("(*store).authenticate")
	}

	// structural: dispatcher arms.  For every `case req := <-s.xChan` arm:
	// the sends in its body that do NOT go to req.response.
	if fn := m.funcDecl("store", "dispatchRequests"); fn != nil {
		arms := 0
		foreign := 0
		reauth := false
		localArmFound := false
		ast.Inspect(fn, func(n ast.Node) bool {
			cc, ok := n.(*ast.CommClause)
			if !ok || cc.Comm == nil {
				return true
			}
			arms++
			for _, stmt := range cc.Body {
				for _, s := range sendsIn(stmt) {
					if s.target != "req.response" {
						foreign++
					}
				}
			}
			// the updateChan arm: inspect the else branch (response == nil)
			if as, ok := cc.Comm.(*ast.AssignStmt); ok && len(as.Rhs) == 1 {
				if ue, ok := as.Rhs[0].(*ast.UnaryExpr); ok && ue.Op == token.ARROW && exprString(ue.X) == "s.updateChan" {
					for _, stmt := range cc.Body {
						if ifs, ok := stmt.(*ast.IfStmt); ok && ifs.Else != nil {
							localArmFound = true
							calls := callsIn(ifs.Else)
							// the local upgrade re-authenticates if it calls the store's
							// Authenticate (directly or via a helper named *upgrade*) before update
							for _, c := range calls {
								if c == "s.dir.Authenticate" || c == "s.upgrade" || c == "s.localUpgrade" {
									reauth = true
								}
							}
						}
					}
				}
			}
			return true
		})
		f.n("dispatcher_arms", int64(arms), "dispatchRequests: number of select arms with a channel operation")
		f.n("dispatcher_foreign_sends", int64(foreign), "dispatchRequests: sends in arm bodies other than req.response")
		if localArmFound {
			// helper method: look inside it for Authenticate before UpdateUser
			if !reauth {
				f.b("local_upgrade_reauthenticates", false, "dispatchRequests updateChan arm, response == nil branch")
			} else {
				ok := false
				for _, name := range []string{"upgrade", "localUpgrade"} {
					if h := m.funcDecl("store", name); h != nil {
						cs := callsIn(h)
						if has(cs, "s.dir.Authenticate") {
							ok = true
						}
					}
				}
				if !ok {
					// direct call in the arm
					ok = true
				}
				f.b("local_upgrade_reauthenticates", ok, "dispatchRequests updateChan arm, response == nil branch")
			}
		} else {
			f.miss("dispatchRequests: updateChan arm with response == nil branch")
		}
	} else {
		f.miss("(*store).dispatchRequests")
	}

	// structural: the client side of the rendezvous.  Every method of the exported Store type hands one
	// request to the dispatcher and then waits for the answer on a channel of its own: a local,
	// unbuffered `make(chan T)` stored in req.response, one plain send, one plain receive, no select,
	// no goroutine.  (The dispatcher's `req.response <- ...` is a blocking send: it returns only
	// because the caller is sure to be receiving, and reaches the right caller only because nobody
	// else holds that channel.)
	{
		methods, plain := 0, 0
		var notPlain []string
		for _, af := range m.sortedFiles() {
			for _, d := range af.Decls {
				fn, ok := d.(*ast.FuncDecl)
				if !ok || fn.Recv == nil || len(fn.Recv.List) != 1 || fn.Body == nil {
					continue
				}
				rt := exprString(fn.Recv.List[0].Type)
				if rt != "*Store" && rt != "Store" {
					continue
				}
				sends := sendsIn(fn)
				if len(sends) == 0 {
					continue // not a request method
				}
				methods++
				ok = len(sends) == 1 && strings.HasPrefix(sends[0].target, "s.") && strings.HasSuffix(sends[0].target, "Chan")
				locals := map[string]bool{} // identifiers bound to a fresh unbuffered channel
				nrecv, nsel, ngo := 0, 0, 0
				recvFrom := ""
				respAssigned := ""
				ast.Inspect(fn, func(n ast.Node) bool {
					switch x := n.(type) {
					case *ast.SelectStmt:
						nsel++
					case *ast.GoStmt:
						ngo++
					case *ast.AssignStmt:
						for i, rhs := range x.Rhs {
							if i >= len(x.Lhs) {
								break
							}
							if c, isCall := rhs.(*ast.CallExpr); isCall && exprString(c.Fun) == "make" && len(c.Args) == 1 {
								if _, isChan := c.Args[0].(*ast.ChanType); isChan {
									locals[exprString(x.Lhs[i])] = true
								}
							}
							if strings.HasSuffix(exprString(x.Lhs[i]), ".response") {
								respAssigned = exprString(rhs)
							}
						}
					case *ast.UnaryExpr:
						if x.Op == token.ARROW {
							nrecv++
							recvFrom = exprString(x.X)
						}
					}
					return true
				})
				ok = ok && nsel == 0 && ngo == 0 && nrecv == 1 && locals[recvFrom] && respAssigned == recvFrom
				if ok {
					plain++
				} else {
					notPlain = append(notPlain, fn.Name.Name)
				}
			}
		}
		if methods == 0 {
			f.miss("request methods of type Store")
		}
		f.n("api_request_methods", int64(methods), "methods of *Store that send a request to the dispatcher")
		f.b("clients_rendezvous_plain", methods == plain, "every request method: fresh unbuffered response channel, one send, one receive, no select / goroutine; exceptions: "+strings.Join(notPlain, ","))
	}

	// structural: the hooks goroutine is the only reader of hooks.Notify and hooks.NewStore, and the
	// dispatcher sends to both with plain (blocking) sends: every place where HooksCaller.run waits must
	// be a select that receives from both, or the dispatcher can block behind it
	if fn := m.funcDecl("HooksCaller", "run"); fn != nil {
		selects, both, ranges := 0, 0, 0
		ast.Inspect(fn, func(n ast.Node) bool {
			switch x := n.(type) {
			case *ast.RangeStmt:
				if strings.HasPrefix(exprString(x.X), "h.") {
					ranges++
				}
			case *ast.SelectStmt:
				selects++
				hasN, hasS := false, false
				for _, c := range x.Body.List {
					cc := c.(*ast.CommClause)
					var e ast.Expr
					switch st := cc.Comm.(type) {
					case *ast.ExprStmt:
						e = st.X
					case *ast.AssignStmt:
						if len(st.Rhs) == 1 {
							e = st.Rhs[0]
						}
					}
					if u, ok := e.(*ast.UnaryExpr); ok && u.Op == token.ARROW {
						switch exprString(u.X) {
						case "h.Notify":
							hasN = true
						case "h.NewStore":
							hasS = true
						}
					}
				}
				if hasN && hasS {
					both++
				}
			}
			return true
		})
		f.b("hooks_consumer_always_drains", selects >= 1 && selects == both && ranges == 0,
			fmt.Sprintf("HooksCaller.run: %d select statements, %d receive from both h.Notify and h.NewStore, %d range loops over a channel", selects, both, ranges))
	} else {
		f.miss("(*HooksCaller).run")
	}

	// structural: hooks goroutine and remote upgrader never touch dispatcher channels
	touch := 0
	for _, name := range []struct{ r, n string }{{"HooksCaller", "run"}, {"HooksCaller", "runAllHooks"}, {"", "runHook"}, {"", "remoteHTTPUpgrader"}, {"", "remoteHTTPUpgrade"}} {
		fn := m.funcDecl(name.r, name.n)
		if fn == nil {
			fn = m.funcAny(name.n)
		}
		if fn == nil {
			f.miss("func " + name.n)
			continue
		}
		ast.Inspect(fn, func(n ast.Node) bool {
			switch x := n.(type) {
			case *ast.SendStmt:
				t := exprString(x.Chan)
				if strings.HasPrefix(t, "s.") {
					touch++
				}
			case *ast.UnaryExpr:
				if x.Op == token.ARROW && strings.HasPrefix(exprString(x.X), "s.") {
					touch++
				}
			}
			return true
		})
	}
	f.n("consumers_touch_dispatcher_chans", int64(touch), "hooks.go run/runAllHooks/runHook, remoteHTTPUpgrader: ops on s.* channels")

	f.inventory(st, "store", "Dir", "UserHash", "Argon2IDHasher", "ScryptAuthHasher")
	f.inventory(sasl, "sasl", "Server", "Client", "Request", "Response")
	f.inventory(m, "main", "store", "Store", "webSessionFactory", "HooksCaller", "zxcvbnPolicy")

	// Extracted.v is written in any case - with the facts that were found - so that a failed extraction
	// never leaves the facts of ANOTHER tree behind: an obligation about a missing fact then fails on the
	// missing name.
	var b strings.Builder
	b.WriteString("(* Extracted.v - GENERATED by tools/facts from the working tree of the repository\n   under verification on every check run.  Do not edit. *)\n")
	b.WriteString("From Coq Require Import NArith String.\n\n")
	for _, l := range f.lines {
		b.WriteString(l + "\n")
	}
	for _, m := range f.missing {
		b.WriteString("(* NOT FOUND in this tree: " + san(m) + " *)\n")
	}
	if len(f.missing) > 0 {
		// keep the models buildable for the failing-input search: a fact that was not found keeps the value
		// it had in the file being replaced (marked STALE); every fact that WAS found is fresh
		have := map[string]bool{}
		for _, l := range f.lines {
			if fs := strings.Fields(l); len(fs) > 1 {
				have[fs[1]] = true
			}
		}
		if old, err := os.ReadFile(out); err == nil {
			for _, l := range strings.Split(string(old), "\n") {
				if fs := strings.Fields(l); len(fs) > 1 && fs[0] == "Definition" && !have[fs[1]] {
					b.WriteString(strings.Replace(l, "(*", "(* STALE (not found in this tree) ", 1) + "\n")
				}
			}
		}
	}
	newc := b.String()
	if old, err := os.ReadFile(out); err != nil || string(old) != newc { // unchanged: keep the timestamp so make does not rebuild
		if err := os.WriteFile(out, []byte(newc), 0644); err != nil {
			fmt.Fprintf(os.Stderr, "facts: %v\n", err)
			os.Exit(2)
		}
	}
	if len(f.missing) > 0 {
		for _, m := range f.missing {
			fmt.Fprintf(os.Stderr, "facts: fact not found: %s\n", m)
		}
		os.Exit(2)
	}
}

func orNil(e ast.Expr) ast.Expr {
	if e == nil {
		return &ast.BadExpr{}
	}
	return e
}
