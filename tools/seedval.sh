#!/bin/bash
# seedval.sh <Cnn> <srcdir> <demo-dest-dir-relative-to-repo|-> <demo command, run in the worktree ($W)>
# Validates a candidate seeded change in a scratch worktree of /repo: patch applies, builds, pinned
# tests pass, demo fails with the patch and passes without it.
set -u
P=$1; SRC=$2; DEST=$3; shift 3; CMD="$*"
export GOFLAGS=-mod=mod GOPROXY=off GOSUMDB=off GOTOOLCHAIN=local
W=/tmp/seedval/$P
mkdir -p /tmp/seedval; git -C /repo worktree remove --force $W >/dev/null 2>&1; rm -rf $W; git -C /repo worktree prune
git -C /repo worktree add -q --detach $W HEAD || exit 2
trap 'git -C /repo worktree remove --force $W >/dev/null 2>&1' EXIT
cd $W; export W
git apply --check $SRC/patch.diff || { echo "APPLY: FAIL"; exit 1; }
git apply $SRC/patch.diff; echo "APPLY: ok ($(git diff --stat | tail -1))"
go build ./... >/tmp/seedval/$P.build.log 2>&1 && echo "BUILD: ok" || { echo "BUILD: FAIL"; cat /tmp/seedval/$P.build.log; exit 1; }
go test -vet=off -count=1 ./... >/tmp/seedval/$P.test.log 2>&1 && echo "TESTS: pass" || { echo "TESTS: FAIL"; tail -20 /tmp/seedval/$P.test.log; exit 1; }
if [ "$DEST" != "-" ]; then mkdir -p $W/$DEST
  for f in $SRC/*; do b=$(basename $f); case $b in patch.diff|meta.json) ;; *) cp -r $f $W/$DEST/;; esac; done
fi
bash -c "$CMD" >/tmp/seedval/$P.demo_with.log 2>&1; r1=$?
echo "DEMO with patch: exit $r1 ($(grep -c -i 'fail' /tmp/seedval/$P.demo_with.log) fail lines)"
git apply -R $SRC/patch.diff
bash -c "$CMD" >/tmp/seedval/$P.demo_without.log 2>&1; r2=$?
echo "DEMO without patch: exit $r2"
if [ $r1 -ne 0 ] && [ $r2 -eq 0 ]; then echo "VALID"; else echo "INVALID"; tail -5 /tmp/seedval/$P.demo_with.log /tmp/seedval/$P.demo_without.log; fi
