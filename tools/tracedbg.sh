#!/bin/bash
# tracedbg.sh <replay.json> : print observed result/events of a trace case and the model's
f=$1
python3 - "$f" <<'PY' > /tmp/tdbg.v
import json,sys,ast
r=json.load(open(sys.argv[1]))
c=r['case']
if isinstance(c,str): c=ast.literal_eval(c)
print("From Whawty Require Import Bytes Base64 Names Record Store StoreSpec StoreTrace Crash.\nFrom WhawtyRun Require Import Trace C08.\nOpen Scope N_scope.")
print("Definition cs := "+c['coq']+".")
print("Definition obs := match cs with TraceCase c t init o orc ft r after evs => (ft, r, map (fun e => match e with EWrite l _ => EWrite l [] | e => e end) evs) end.")
print("Definition mdl := match cs with TraceCase c t init o orc ft r after evs => match run_model c t init o orc ft with Some (r', s) => Some (r', map (fun e => match e with EWrite l _ => EWrite l [] | e => e end) (events s)) | None => None end end.")
print("Eval vm_compute in obs.\nEval vm_compute in mdl.\nEval vm_compute in (agrees cs, spec_ok cs).")
import sys
sys.stderr.write(str(c.get('human'))[:1500]+"\n")
PY
cd /tmp && coqc -Q /verif/coq/theories Whawty -Q /verif/coq/Run WhawtyRun tdbg.v 2>&1 | tail -40
