#!/usr/bin/env python3
"""seedmeta.py <sweep.log> : record, in every /verif/seeded/<id>/meta.json, what the builder ran to
validate the seeded change and which check reports it (first run / after strengthening), and print
the markdown table of DESIGN.md section 11."""
import json
import os
import re
import sys

SEEDED = "/verif/seeded"

# what happened when the seed was first run against the checks, and what was changed because of it
HISTORY = {
    "C01": ("caught", ""),
    "C02": ("missed", "C02 driver: digests computed for the right password under a NEIGHBOUR of the configured parameter set (one parameter changed: argon2 tag length / time / memory / threads, scrypt cost / r / p / key) filed under the configured id"),
    "C03": ("caught", ""),
    "C04": ("caught", ""),
    "C05": ("caught", ""),
    "C06": ("missed", "C06 driver: look-alike user names (case variants, prefix, extension, padding) planted and targeted, plus a systematic matrix non-admin credential x every target on update and one management endpoint"),
    "C07": ("missed", "C07 driver: single-character insertions at every position and junk appended to / prepended before each field of a valid token"),
    "C08": ("caught", ""),
    "C09": ("caught", ""),
    "C10": ("caught (facts + stalled-master load pattern)", ""),
    "C11": ("caught - by chance: a later sweep saw only the broken obligation extracted_structure", "C11 driver: 24 clients log in at once through ONE shared handle (scrypt cost 8 so that they pile up), right and wrong passwords alternating; the first wrong answer and everything overlapping it goes to the linearizability search"),
    "C12": ("caught", ""),
    "C13": ("missed", "Run/C13: a model that still wants input (Blocked) when the implementation has already answered is a disagreement; the monitor refuses an answer given while the stream is open and the bytes read so far are a proper prefix of a message (the harness had handed the model only the reads the implementation made, so giving up early looked like a truncated stream)"),
    "C14": ("caught", ""),
    "C15": ("caught", ""),
    "C16": ("missed", "C16 driver: directories with 10-60 entries and the offending entry (duplicate pair, stray file, sub-directory) at a random place of the listing"),
    "C17": ("caught", ""),
    "C18": ("missed", "C18 driver: an unknown key (or a known key in the wrong case) next to any scalar entry at every nesting level of any parameter set; zero-valued fields sometimes written out and sometimes left out"),
    "C19": ("caught", ""),
    "C20": ("caught", ""),
    "C01-2": ("missed by C01 (reported by C08/C09: write after the rename)", "C01 got a system-call level part (Run/C01t): add / update under strace with one injected I/O error each; an operation that reports success must have installed the password"),
    "C02-2": ("missed", "C02 driver: a valid record followed on the same line by CR padding (skipped by the base64 decoder) up to and beyond 4096 / 8192 / 65536 bytes and then junk"),
    "C03-2": ("translator only (regexp fact missing, no failing input)", "C03 names: code points >= U+0100 whose low byte / folding is an allowed ASCII character (homoglyphs, wide forms, c + k*256), zero-width and bidi characters, overlong and surrogate UTF-8; C16: only admin with such a name"),
    "C04-2": ("missed", "C04 driver: the same questions again from 24 concurrent clients over the four network frontends (nothing in the store changes, so every answer must still be the store's verdict for that pair)"),
    "C05-2": ("caught", ""),
    "C06-2": ("missed", "C06 and C07 drivers: a credential that expires between two uses (sealed 597 s ago, used, 4 s sleep, used again on every endpoint)"),
    "C07-2": ("correspondence only (no failing input)", "C07 driver: time stamps whose distance from now in nanoseconds wraps around 2^64 / 2^63 / k*2^55 into the lifetime window"),
    "C08-2": ("missed", "C08 now runs every single injected I/O error (incl. rename: EXDEV, write: EDQUOT, open: EROFS) in add / update and judges the trace of a FAILED operation by the discipline extended with its clean-up (protocol_prefix_x_ok, crash safety proved in CrashX_proofs); truncating opens are projected as writes; faults are described by the call they actually hit"),
    "C09-2": ("caught", ""),
    "C10-2": ("missed", "tools/facts extracts the client side of the rendezvous (fresh unbuffered response channel, one send, one receive, no select) as a premise of the agent model; C10 driver: a login burst whose backlog takes the dispatcher > 12 s (scrypt cost 15), every login answered, every request kind answered afterwards"),
    "C11-2": ("missed", "C11 driver: directed histories - a login queues an upgrade behind a backlog of other users' updates, then acknowledged update / remove / remove+add / set-admin / remove+add+update of the same user, then sequential reads"),
    "C12-2": ("missed", "C12 driver: a burst of 150 upgradeable logins (overflows the 10-slot queue), quiescence, then the sequential logins of the users the burst left behind: each must be upgraded"),
    "C13-2": ("caught", ""),
    "C14-2": ("missed", "store / agent drivers: argon2id memory values that are not multiples of 4*threads"),
    "C15-2": ("missed", "trace scenarios: left-overs in .tmp under names derived from the user name, longer than anything an update writes; Run/C15t: a successful update keeps everything after the first line byte for byte"),
    "C16-2": ("missed", "C16 got an agent-level part (Run/C16a): the built binary on 11 directories with and without --do-check=false (ran / refused / changed), six reloads by SIGHUP (same directory: admin's set dropped, became inconsistent, stray file; new directory) against the model's check of the new directory under the new configuration"),
    "C17-2": ("driver did not build (harness used an unexported field that the change removed)", "C17 condition cases are behavioural (public Check on a panel of passwords, estimator values computed by the harness; threshold by reflection if present) and include NaN / Inf / fractional / exponent / prefixed thresholds"),
    "C18-2": ("missed", "C18 driver: reloads that keep the directory but drop the admin's parameter set / find the directory inconsistent"),
    "C19-2": ("correspondence only (round count, no failing input)", "C19 timing cases carry the number of notifications not followed by the start of a hook round; more burst-then-single patterns"),
    "C20-2": ("missed", "C20: the stub pam_vsyslog formats its message (so the sanitizer sees %s arguments); every reply of the corpus also under the debug option, NO-replies of 255..300 bytes, declared lengths up to 65535 with garbage"),
    # round 3: first run after some generator changes made in anticipation while the seeds were being validated
    "C01-3": ("caught (argon2id parameter sets with more lanes than CPUs had just been added to the generator)", ""),
    "C02-3": ("caught (tamper-after-login cases had just been added: the valid record is accepted on the same Dir, then the file is replaced out of band)", ""),
    "C03-3": ("correspondence only (order of system calls changed, no failing input)", "C03 driver: stores whose base directory never existed / vanished / lost an ancestor: no operation may succeed or create any object"),
    "C04-3": ("caught", ""),
    "C05-3": ("caught", ""),
    "C06-3": ("correspondence only (no failing input)", "C06 driver: body shapes that leave out empty keys or every credential key; after each accepted session-based request the same request with no credential key at all"),
    "C07-3": ("caught", ""),
    "C08-3": ("missed", "C08 trace cases: a read-only operation opens each hash file at most once (a second open may already be the writer's new file)"),
    "C09-3": ("caught", ""),
    "C10-3": ("translator only (runHook became a method: fact not found)", "tools/facts finds runHook whatever its receiver; C10 driver: a 9 s pattern with hooks (trailing round after 5 s, 32-slot notification queue)"),
    "C11-3": ("caught in one run, only via the broken obligation extracted_structure in the next (the random histories hit the window only sometimes)", "C11 driver: directed histories - three readers log in as users whose admin status a writer keeps flipping (password and existence constant: every login must succeed)"),
    "C12-3": ("missed", "C12 driver: a user with 4-9 KiB of auxiliary data in distinguishable lines"),
    "C13-3": ("caught", ""),
    "C14-3": ("missed by C14 (reported by C18: reload does not take the new default)", "C14 got an agent-level part (Run/C14a): add / update / login-triggered upgrade through the running agent before and after two reloads that change the default"),
    "C15-3": ("caught (valid names containing '.user' / '.admin' had just been added to the generators)", ""),
    "C16-3": ("caught (add / update / set-admin on generated directories incl. empty reservations of both classes had just been added)", ""),
    "C17-3": ("missed", "C17 driver: verdicts from an oracle that shares no state with the agent (estimator called directly); sequences of requests in one agent whose (user, password) pairs concatenate to the same string, in both orders"),
    "C18-3": ("missed", "C18 driver: empty / null items in the parameter-set list, null blocks; the loader runs under recover so that a crash is a reported input, not a dead driver"),
    "C19-3": ("translator only (runHook became a method)", "C19 driver: the caller is built by NewHooksCaller; every other pattern has a second hook that runs longer than the rate limit; coverage is per eligible hook"),
    "C20-3": ("driver did not build (stub _pam_macros.h lacked _pam_overwrite_n)", "stub header completed from Linux-PAM; the user x password length grid always contains every pair with both fields at or beyond the limit"),
    # round 4 (told about the three earlier seeds; asked for untouched clauses, entry points, environment conditions)
    "C01-4": ("correspondence only (fault traces differ, no failing input)", "trace cases of C01 / C08: the temp file must be created exclusively (O_EXCL) - the tmp_fresh premise of the crash-safety theorem, now checked on every observed add / update"),
    "C02-4": ("missed by C02 (reported by C18: reload keeps retired sets)", "C02 got an agent-level part (Run/C02a): records of three sets in use, a reload retires or redefines one, authenticate / list / list-full / update judged under the configuration now in force"),
    "C03-4": ("missed", "C03 driver: well-formed records under names outside the grammar planted among valid ones; directories whose only administrator has such a name; the monitor requires a grammar-named admin behind every accepted check"),
    "C04-4": ("missed", "C04 driver: /api/authenticate bodies that leave out or null a field, right after an accepted login on the same listener"),
    "C05-4": ("missed", "C05 driver: a callback that takes 3.6 s, a client that delivers its request over 4 s"),
    "C06-4": ("missed", "C06 driver: 480 concurrent logins (right password / wrong password / unknown user) on one listener"),
    "C07-4": ("missed", "C07 driver: 16 goroutines issue 600 tokens each on one factory: no two nonces equal"),
    "C08-4": ("caught", ""),
    "C09-4": ("missed", "C09 now runs every single-fault trace and judges every ACKNOWLEDGED one (it judged undisturbed traces only); this also exposed the genuine defect D12 (remove could not report failure), repaired by b74e4b4; AckedDurable_proofs proves acknowledged => durable for every fault"),
    "C10-4": ("missed", "C10 driver: eight SIGHUP reloads (good, broken, new default) with and without a hooks directory, every request kind probed after each; tools/facts: every wait of HooksCaller.run receives from both channels"),
    "C11-4": ("missed", "C11 driver: odd clients use a handle of their own (as every listener does); directed histories: login through one handle, acknowledged change through another, old and new credentials through the first"),
    "C12-4": ("missed by C12 (reported by C14 / C18)", "C12 driver: a reload that changes nothing but the default in the middle of a login sequence; the rest of the sequence is judged under the new default"),
    "C13-4": ("missed by C13 (reported by C20 as a request mismatch)", "C13 got the PAM encoder part: the module's request bytes for 14+ (user, password) pairs with the kernel taking 1..257 bytes per send() (send / write wrapped at link time)"),
    "C14-4": ("missed", "store drivers: planted records dated in the future (and at int64 edges)"),
    "C15-4": ("missed", "residue in .tmp that is days old (directory cases and traced scenarios), read-only operations traced on it"),
    "C16-4": ("missed", "C16 agent part: concurrent add requests for one new name in both classes through separate handles (scrypt cost 12 so that they overlap)"),
    "C17-4": ("missed", "C17 driver: passwords of 70-140 bytes that are strong only in the tail or weak only as a whole, in the write-path candidates and the behavioural panel"),
    "C18-4": ("caught", ""),
    "C19-4": ("caught (the hook's working directory did not exist in the driver's set-up, so no hook started)", ""),
    "C20-4": ("missed", "C20 driver: the host application handles SIGUSR1; signals arrive while the module waits, followed by a full reply / close / cut reply / silence"),
    # round 5
    "C01-5": ("caught", ""),
    "C02-5": ("missed", "C02 driver: an argon2id parameter set with more lanes than the machine has CPUs (and one with 255) among the configured sets: records written by an independent implementation must verify"),
    "C03-5": ("missed", "C03 monitor: the footprint clause for VALID names (an operation on <u> changes <u>.user / <u>.admin only); users whose names extend another user's name with a dot (alice / alice.smith / alice.admin as a user name / bob.x) planted in every store of the names part and in the random histories"),
    "C04-5": ("missed", "C04 driver: log in on every frontend, change the password / remove the user through another way in (second web listener, the agent's interface, the command line), ask every frontend again at once"),
    "C05-5": ("missed", "C05 driver: 40 / 70 (thorough 130) stalled peers that sent nothing or a prefix and keep their connection open; further connections must be served as usual"),
    "C06-5": ("caught (other-instance tokens; the first replay listed is the broken fact)", ""),
    "C07-5": ("caught", ""),
    "C08-5": ("caught (temp file opened without O_EXCL)", ""),
    "C09-5": ("correspondence only (remove of an absent user makes no fsync; no failing input)", "C09 got a history part (Run/C09h, DurHist): several operations on one directory with an I/O error injected into some, judged by hist_ok with the dirty names carried from step to step; proved sound (history_acked_durable) and satisfied by every model history (ModelHist); this exposed the genuine defect D13"),
    "C10-5": ("missed", "C10 driver: the process runs out of file descriptors for 300 ms while saslauthd clients connect (accept fails with EMFILE); afterwards the socket and the dispatcher must answer"),
    "C11-5": ("caught", ""),
    "C12-5": ("missed", "C12 driver: every eighth sequence runs the agent with a zxcvbn policy (strong passwords, weak user names; estimator called by the harness); Run/C12 UpgSeqP: the model's policy is the table of refused (password, user) pairs, the monitor requires the rewrite on an idle agent when the password meets the policy"),
    "C13-5": ("missed", "C13 driver: every third decode goes into a value that earlier decodes have filled; this exposed the genuine defect D14 (Response.Decode kept a stale Message); seed rebased onto its repair"),
    "C14-5": ("caught", ""),
    "C15-5": ("caught", ""),
    "C16-5": ("correspondence only (failed update deletes the record; the directory stayed valid because another admin existed)", "C16 monitor: from a valid store every operation that does not remove or demote an administrator - successful or failed - leaves a valid store; generated directories get a password change of every administrator present"),
    "C17-5": ("driver did not build (NewStore lost its policy parameters)", "C17 got a command-line part that depends on no Go signature: the built binary's init / add / update with passwords that clearly fail / meet three policies, policy by flags and by environment, with and without --do-check=false"),
    "C18-5": ("driver hung (the dispatcher was wedged by the second reload; no watchdog on the probe request)", "C18 driver: watchdog on the request that follows the reload signals: an agent that no longer answers is a reported input"),
    "C19-5": ("missed", "C19 driver: 40-80 hooks so that starting a round takes a while; the second change is sent as soon as the first hook of the round has logged its start; every hook must also be started at or after it"),
    "C20-5": ("caught", ""),
    # round 6
    "C01-6": ("caught", ""),
    "C02-6": ("caught", ""),
    "C03-6": ("missed", "C03 got an agent-level part (harness/main/c03_test.go, judged by Run/C04): ~75 names outside the grammar with the user's correct password through the agent's saslauthd socket with every service / realm choice (the realm equal to the tail of the login), basic-auth, the JSON API, an LDAP bind"),
    "C04-6": ("translator only (the upgrade enqueue fact disappeared; no failing input)", "C04 driver: agents with local upgrades whose upgrade cannot be carried out ('.tmp' a regular file; a policy the old password does not meet): the correct password must still be accepted on every frontend"),
    "C05-6": ("caught", ""),
    "C06-6": ("missed", "C06 driver: every third sequence continues after a SIGHUP that switches to ANOTHER store directory (same listener, same session factory, the sessions handed out so far part of the history): logins, old-password updates and sessions judged by the model on the new directory"),
    "C07-6": ("correspondence only (decode error class changed; no failing input)", "C07 driver: nonce||ciphertext of a valid token cut at every other offset and encoded as two fields again"),
    "C08-6": ("correspondence only (read pattern changed; no failing input)", "trace scenarios: a record whose auxiliary data has a 70 000-byte line followed by further lines; Run/C08 requires of an acknowledged update that everything after the first line of the old file is in the new file byte for byte"),
    "C09-6": ("missed", "tools/facts lists the package-level variables of the three Go packages and the fields of the structs the models describe (theories/StateInst.v): the models keep no state between operations other than those components; concurrency of library calls inside one process is not exercised at system-call level, so this seed is reported through the broken inventory only (no failing input)"),
    "C10-6": ("translator only (the NewStore channel fact disappeared)", "C10 driver: 300 hooks, a modification immediately followed by a reload signal, every request kind probed with a watchdog, four rounds"),
    "C11-6": ("missed", "C11 got a web part (prop tag C11W: three request sequences of the C06 driver judged by Run/C06): a request that omits a member after another connection's request set it"),
    "C12-6": ("missed", "C12 driver: remote mode across an outage of the upgrade master (503 for twelve logins, then healthy and idle): the next upgradeable login must be upgraded on the master"),
    "C13-6": ("missed", "C13 driver: the slice a Marshal call returned is looked at again after the next Marshal (either message kind)"),
    "C14-6": ("translator only (salt size fact)", "C14 store driver: 16 goroutines write through one Dir for 6 rounds (argon2id and scrypt): no salt of the run is used twice, every record verifies; StateInst inventory"),
    "C15-6": ("caught", ""),
    "C16-6": ("missed", "C16 agent part: the built binary's `authenticate` with local upgrades and a default parameter set that hashes for about half a second: the work area must be empty after the completed command"),
    "C17-6": ("missed", "C17 driver: four reload signals (same configuration, a broken file, a new default, back) with weak and strong writes after each - Store interface and web API with the admin session obtained before"),
    "C18-6": ("missed", "C18 driver: every other reload scenario runs with local upgrades (upgrade queue = update queue) and has password changes among the requests in flight"),
    "C19-6": ("translator only (kill-timer fact disappeared)", "thorough tier only: a hook that ignores SIGTERM must be gone 70 s after its start (the quick tier reports the broken fact, no failing input)"),
    "C20-6": ("correspondence only (no failing input)", "C20: the reply body delivered in two or three segments, split at every position where a later segment begins with \"OK\""),
    # round 7 (first run in a snapshot universe: seeded/sweep7-first.log)
    "C01-7": ("caught", ""),
    "C02-7": ("caught (the driver sat in the hanging call until its time-out; inputs from the other file contents)", "store drivers: authentication runs under an 8 s watchdog; a call that does not return is a reported input"),
    "C03-7": ("missed", "trace scenarios: dangling symbolic links under the names of absent users, pointing at a sibling store / a decoy (add, update, authenticate); every traced add / init must open the hash file's reservation with O_EXCL; snapshots record symbolic links without following them"),
    "C04-7": ("missed", "C04 driver: the saslauthd request delivered in segments (cut inside login, password, service, a length prefix; byte-wise) over a raw socket"),
    "C05-7": ("missed", "C05 driver: the process out of file descriptors for 300 ms with clients in the listen queue, then four ordinary connections"),
    "C06-7": ("obligation only (state inventory: the agent's store got a cache field)", "C06 driver: an administrator logs in, is demoted by another administrator, logs in again at once and uses the new session (and the other way round for an ordinary user)"),
    "C07-7": ("caught", ""),
    "C08-7": ("caught", ""),
    "C09-7": ("caught", ""),
    "C10-7": ("obligation only (state inventory: store.Dir got a mutex)", "C10 driver: modifications that fail inside the store library (the name is a dangling symbolic link; '.tmp' is a regular file) with every request kind probed after each, local upgrades on"),
    "C11-7": ("translator only (client-side rendezvous fact: buffered response channel, select with a timer)", "- (a request that waits just under the new 5 s deadline and then executes past it needs a backlog of that length; not exercised)"),
    "C12-7": ("missed", "C12 driver: every fifth sequence has stale files in the work area under names derived from the users' hash files, longer than any record an upgrade writes"),
    "C13-7": ("caught", "(several long fields in one request, whole / byte-wise / random fragments, were added as well)"),
    "C14-7": ("caught", ""),
    "C15-7": ("missed", "the dangling-symbolic-link trace scenario (see C03-7): a failed add leaves the link where it was"),
    "C16-7": ("correspondence only (C16's directories are built without faults)", "C16 got a system-call level part: set-admin / remove / add / update under every single injected I/O error - afterwards no user has two files"),
    "C17-7": ("obligation only (state inventory: zxcvbnPolicy got a channel field)", "- (needs a password that keeps the estimator busy for more than two seconds; not exercised)"),
    "C18-7": ("caught", ""),
    "C19-7": ("missed", "C19 driver: executable entries that cannot be started (dangling link, missing interpreter, no program) interleaved with good hooks: every good hook must be started"),
    "C20-7": ("missed", "C20: socket path options of 90 / 106 / 107 / 108 / 109 / 110 / 200 / 4000 bytes (sun_path holds 108), unreachable and answering"),
}


def main():
    log = open(sys.argv[1]).read() if len(sys.argv) > 1 else ""
    res = {}
    for l in log.splitlines():
        m = re.match(r'(C\d\d(?:-\d+)?) exit=(\d+) violations=(\d+) with-input=(\d+) :: (.*)', l)
        if m:
            res[m.group(1)] = dict(exit=int(m.group(2)), violations=int(m.group(3)), with_input=int(m.group(4)), first=m.group(5).strip())
    rows = []
    for d in sorted(os.listdir(SEEDED)):
        mp = os.path.join(SEEDED, d, "meta.json")
        if not os.path.exists(mp):
            continue
        m = json.load(open(mp))
        prop = d.split("-")[0]
        m["builder_validation"] = {
            "how": "tools/seedval.sh in a scratch worktree of /repo HEAD under /tmp/seedval (removed afterwards)",
            "patch_applies": True, "go_build": True, "pinned_tests_pass_with_patch": True,
            "demo_fails_with_patch": True, "demo_passes_without_patch": True,
        }
        first, change = HISTORY.get(d, ("", ""))
        r = res.get(d)
        m["detection"] = {
            "check": "/verif/check %s --tier quick" % prop,
            "first_run": first,
            "strengthening": change,
            "now": None if r is None else ("VIOLATION with a concrete failing input (%d replays)" % r["with_input"] if r["with_input"] else
                                           ("VIOLATION no-failing-input-found" if r["violations"] else "NOT DETECTED")),
            "example_replay": None if r is None else re.sub(r'^VIOLATION property=\w+ replay=', '', r["first"]),
        }
        json.dump(m, open(mp, "w"), indent=1)
        rows.append((d, prop, m.get("summary", "")[:150].replace("\n", " ").replace("|", "/"), first, m["detection"]["now"], change))
    print("| seed | change (abridged) | first run | now | what was strengthened |")
    print("|------|-------------------|-----------|-----|-----------------------|")
    for d, prop, summ, first, now, change in rows:
        print("| %s | %s | %s | %s | %s |" % (d, summ, first, now, change or "-"))


if __name__ == "__main__":
    main()
