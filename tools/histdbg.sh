#!/bin/bash
# histdbg.sh <replay.json> <RunModule> : first step at which model / monitor object
python3 - "$1" "$2" <<'PY' > /tmp/hdbg.v
import json,sys,ast
r=json.load(open(sys.argv[1])); c=r['case']
if isinstance(c,str): c=ast.literal_eval(c)
print("From Whawty Require Import Bytes Names Record Store StoreSpec.\nFrom WhawtyRun Require Import %s.\nOpen Scope N_scope.\nDefinition cs := %s.\nEval vm_compute in (first_diff cs, spec_first cs)." % (sys.argv[2], c['coq']))
sys.stderr.write("\n".join("%d %s"%(i,o[:150]) for i,o in enumerate(c['human']['ops']))+"\n")
PY
cd /tmp && coqc -Q /verif/coq/theories Whawty -Q /verif/coq/Run WhawtyRun hdbg.v 2>&1 | tail -5
