#!/bin/bash
# seedsweep.sh [seed-dir ...] : for every seeded change (default: all of /verif/seeded/*), apply it to
# /repo's working tree, run the quick check of the property it targets, restore the tree; one line each.
cd /verif
ds=${@:-$(ls -d seeded/*/)}
for d in $ds; do
  d=${d%/}; s=$(basename $d); p=${s%%-*}
  out=$(tools/seedrun.sh $PWD/$d/patch.diff $p 2>&1)
  rc=$(echo "$out" | grep -o 'exit=[0-9]*')
  nv=$(echo "$out" | grep -c '^VIOLATION')
  nf=$(echo "$out" | grep '^VIOLATION' | grep -vc 'no-failing-input-found')
  echo "$s $rc violations=$nv with-input=$nf :: $(echo "$out" | grep '^VIOLATION' | head -1 | cut -c1-160)"
done
