#!/bin/bash
# snapsweep.sh <log> <seed-dir> ... : the seed sweep in a parallel universe - run from a snapshot of /verif
# (vp run --with-repo) against a snapshot of /repo ($VP_RUN_REPO): builds the snapshot's framework, then for
# every seed applies the patch to that checkout, runs the quick check of its property there, restores it.
# Nothing in /repo or /verif is touched.  Results are NOT evidence (see DESIGN.md 11.1): they say which
# checks catch which seeded changes.
set -u
HERE=$(cd "$(dirname "$0")/.." && pwd)
export VERIF_REPO=${VP_RUN_REPO:?needs a checkout of the repository in VP_RUN_REPO}
export GOFLAGS=-mod=mod GOPROXY=off GOSUMDB=off GOTOOLCHAIN=local
LOG=$1; shift
cd "$HERE" && ./setup.sh >/dev/null 2>&1 || { echo "setup failed" > "$LOG"; exit 2; }
: > "$LOG"
for d in "$@"; do
  d=${d%/}; s=$(basename "$d"); p=${s%%-*}
  (cd "$VERIF_REPO" && git apply "$HERE/$d/patch.diff") || { echo "$s exit=2 violations=0 with-input=0 :: patch does not apply" >> "$LOG"; continue; }
  out=$("$HERE/check" "$p" --tier quick 2>&1); rc=$?
  (cd "$VERIF_REPO" && git checkout -- . && git clean -fdq)
  nv=$(echo "$out" | grep -c '^VIOLATION')
  nf=$(echo "$out" | grep '^VIOLATION' | grep -vc 'no-failing-input-found')
  echo "$s exit=$rc violations=$nv with-input=$nf :: $(echo "$out" | grep '^VIOLATION' | head -1 | cut -c1-160)" >> "$LOG"
done
echo "SWEEP-DONE" >> "$LOG"
