// C16: generated directories (about 40 % valid) and histories from valid stores.
package store

import (
	"fmt"
	"os"
	"path/filepath"
	"strings"
	"time"
)

func runC16Dir(em *vEmitter, r *vRng, idx int) {
	root := vScratch("c16")
	defer os.RemoveAll(root)
	ps := vGenParams(r, 1+r.intn(3))
	def := ps[r.intn(len(ps))].ID
	h, err := vNewHist(root, ps, def)
	if err != nil {
		panic(err)
	}
	usable := func() (vParam, bool) {
		for k := 0; k < 10; k++ {
			p := ps[r.intn(len(ps))]
			if !p.kdfFails() {
				return p, true
			}
		}
		return vParam{}, false
	}
	plantOne := func(u string, admin bool) {
		p, ok := usable()
		if !ok {
			return
		}
		sl := 16
		if p.Scrypt {
			sl = 32
		}
		h.plant(u, admin, p, int64(1600000000+r.intn(1000000)), r.bytes(sl), []byte("pw-"+u), "\n", vAuxSamples[r.intn(len(vAuxSamples))])
	}
	write := func(name string, content []byte) {
		os.WriteFile(filepath.Join(h.base, name), content, 0600)
	}
	valid := r.intn(100) < 45
	names := append([]string{}, vUserPool[:1+r.intn(6)]...)
	class := "dir/invalid"
	if valid {
		class = "dir/valid"
		plantOne(names[0], true)
		for _, u := range names[1:] {
			switch r.intn(5) {
			case 0:
				plantOne(u, true)
			case 1:
				write(u+".user", []byte("argon2id:1:999:AAAA:AAAA\n")) // unsupported parameter set
			case 2:
				write(u+[]string{".user", ".admin"}[r.intn(2)], nil) // empty reservation
			default:
				plantOne(u, false)
			}
		}
		if r.intn(3) == 0 {
			os.Mkdir(filepath.Join(h.base, ".tmp"), 0700)
		}
	} else {
		// one or more defects
		for _, u := range names {
			if r.intn(2) == 0 {
				plantOne(u, r.intn(3) == 0)
			}
		}
		nd := 1 + r.intn(2)
		for k := 0; k < nd; k++ {
			u := names[r.intn(len(names))]
			switch r.intn(11) {
			case 0:
				write("readme.txt", []byte("hello"))
				class = "dir/invalid/other-extension"
			case 1:
				write(u, []byte("x"))
				class = "dir/invalid/no-extension"
			case 2:
				plantOne(u, true)
				write(u+".user", []byte("x"))
				class = "dir/invalid/both-extensions"
			case 3:
				// no admin at all: remove every .admin
				ents, _ := os.ReadDir(h.base)
				for _, e := range ents {
					if strings.HasSuffix(e.Name(), ".admin") {
						os.Remove(filepath.Join(h.base, e.Name()))
					}
				}
				class = "dir/invalid/no-admin"
			case 4:
				ents, _ := os.ReadDir(h.base)
				for _, e := range ents {
					if strings.HasSuffix(e.Name(), ".admin") {
						write(e.Name(), []byte("argon2id:1:999:AAAA:AAAA\n"))
					}
				}
				class = "dir/invalid/admin-unsupported"
			case 5:
				os.Mkdir(filepath.Join(h.base, "sub"), 0700)
				class = "dir/invalid/subdirectory"
			case 6:
				os.Mkdir(filepath.Join(h.base, u+".admin"), 0700)
				class = "dir/invalid/admin-is-directory"
			case 7:
				write(".tmp", []byte("file"))
				class = "dir/tmp-is-file"
			case 8:
				// only admin has an invalid user name (never counts, C03)
				ents, _ := os.ReadDir(h.base)
				for _, e := range ents {
					if strings.HasSuffix(e.Name(), ".admin") {
						os.Remove(filepath.Join(h.base, e.Name()))
					}
				}
				plantOne([]string{"-x", "\u0430dmin", ".hidden", "ro ot", "r\u014fot", "root\xff"}[r.intn(6)], true)
				class = "dir/invalid/only-admin-has-invalid-name"
			case 9:
				write(u+".user.bak", []byte("x"))
				class = "dir/invalid/other-extension"
			case 10:
				os.Mkdir(filepath.Join(h.base, ".tmp"), 0700)
				write(".tmp/leftover", []byte("residue"))
				if r.intn(2) == 0 { // ... that has been lying there for days
					old := time.Now().Add(-time.Duration(2+r.intn(400)) * 24 * time.Hour)
					os.Chtimes(filepath.Join(h.base, ".tmp/leftover"), old, old)
				}
				class = "dir/tmp-residue"
			}
		}
	}
	// large directories: the verdict must not depend on how many entries there are or on where
	// in the (file-system ordered) listing the offending entry sits
	if r.intn(3) == 0 {
		plantOne("filler0", false)
		if c, err := os.ReadFile(filepath.Join(h.base, "filler0.user")); err == nil {
			n := 9 + r.intn(50)
			for k := 1; k < n; k++ {
				write(fmt.Sprintf("filler%d.user", k), c)
			}
			class += "+large"
			switch r.intn(5) {
			case 0: // a filler with both extensions
				write(fmt.Sprintf("filler%d.admin", r.intn(n)), c)
				class = "dir/invalid/both-extensions+large"
			case 1:
				write(fmt.Sprintf("filler%d.txt", r.intn(n)), c)
				class = "dir/invalid/other-extension+large"
			case 2:
				os.Mkdir(filepath.Join(h.base, fmt.Sprintf("filler%d.d", r.intn(n))), 0700)
				class = "dir/invalid/subdirectory+large"
			}
		}
	}
	h.begin()
	ops := []vOp{{kind: "check"}, {kind: "list"}, {kind: "listfull"},
		{kind: "init", u: "newadmin", pw: []byte("initpw")}, {kind: "check"}, {kind: "exists", u: names[0]}}
	// operations on whatever is there (empty reservations, unsupported records, ...), each followed by a
	// check: from a valid directory they must keep it valid and never yield two files for one user
	for k := 0; k < 3; k++ {
		u := names[r.intn(len(names))]
		switch r.intn(4) {
		case 0, 1:
			ops = append(ops, vOp{kind: "add", u: u, pw: []byte("addpw"), admin: r.intn(2) == 0})
		case 2:
			ops = append(ops, vOp{kind: "update", u: u, pw: []byte("updpw")})
		case 3:
			ops = append(ops, vOp{kind: "setadmin", u: u, admin: r.intn(2) == 0})
		}
		ops = append(ops, vOp{kind: "check"})
	}
	// a password change of every administrator there is (successful or not - '.tmp' may be a file, the
	// record unsupported): neither a removal nor a demotion, so a valid directory stays valid
	if ents, err := os.ReadDir(h.base); err == nil {
		for _, e := range ents {
			if strings.HasSuffix(e.Name(), ".admin") && !e.IsDir() && len(ops) < 16 {
				ops = append(ops, vOp{kind: "update", u: strings.TrimSuffix(e.Name(), ".admin"), pw: []byte("adminpw2")}, vOp{kind: "check"})
			}
		}
	}
	for _, o := range ops {
		h.exec(o)
	}
	em.emit(vCase{Prop: "C16", Kind: "directory", Class: class, Nontrivial: true, Coq: h.term(),
		Human: map[string]interface{}{"ops": h.human, "entries": lsDir(h.base)}})
	for k, v := range h.stats {
		vStats[k] += v
	}
}

func lsDir(d string) []string {
	var out []string
	ents, _ := os.ReadDir(d)
	for _, e := range ents {
		out = append(out, fmt.Sprintf("%s(dir=%v)", e.Name(), e.IsDir()))
	}
	return out
}

// a history from an empty or planted valid store with a check after every operation
func runC16Hist(em *vEmitter, r *vRng, idx int) {
	root := vScratch("c16h")
	defer os.RemoveAll(root)
	ps := vGenParams(r, 1+r.intn(3))
	var good []vParam
	for _, p := range ps {
		if !p.kdfFails() {
			good = append(good, p)
		}
	}
	if len(good) == 0 {
		return
	}
	def := good[r.intn(len(good))].ID
	h, err := vNewHist(root, ps, def)
	if err != nil {
		panic(err)
	}
	h.begin()
	users := vUserPool[:2+r.intn(4)]
	h.exec(vOp{kind: "init", u: "root", pw: []byte("rootpw")})
	h.exec(vOp{kind: "check"})
	n := 10 + r.intn(20)
	for i := 0; i < n; i++ {
		u := users[r.intn(len(users))]
		if r.intn(8) == 0 {
			u = "root"
		}
		switch r.intn(6) {
		case 0:
			h.exec(vOp{kind: "add", u: u, pw: vPassword(r, nil), admin: r.intn(3) == 0})
		case 1:
			h.exec(vOp{kind: "update", u: u, pw: vPassword(r, nil)})
		case 2:
			h.exec(vOp{kind: "setadmin", u: u, admin: r.intn(2) == 0})
		case 3:
			h.exec(vOp{kind: "remove", u: u})
		case 4:
			h.exec(vOp{kind: "auth", u: u, pw: vPassword(r, nil)})
		case 5:
			h.exec(vOp{kind: "setdefault", id: ps[r.intn(len(ps))].ID})
		}
		h.exec(vOp{kind: "check"})
	}
	em.emit(vCase{Prop: "C16", Kind: "history", Class: "hist/from-init", Nontrivial: true, Coq: h.term(),
		Human: map[string]interface{}{"ops": h.human}})
	for k, v := range h.stats {
		vStats[k] += v
	}
}
