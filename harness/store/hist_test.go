// History runner for package store: executes operation histories on a real
// directory and records, per operation, the oracles the model needs (time
// stamp, salt, directory order), the observed result and a byte-level
// snapshot.  The KDF table is filled by independent recomputation with
// x/crypto from the parameters the harness itself wrote into the YAML file.
package store

import (
	"bytes"
	"crypto/hmac"
	"crypto/sha256"
	"encoding/base64"
	"fmt"
	"os"
	"path/filepath"
	"runtime"
	"sort"
	"strconv"
	"strings"
	"time"

	"golang.org/x/crypto/argon2"
	"golang.org/x/crypto/scrypt"
)

// ---- parameter sets as the harness knows them ----
type vParam struct {
	ID      uint
	Scrypt  bool
	Key     []byte // scrypt hmac key (32 bytes)
	Cost    uint
	R, P    int // as written in YAML (0 = omitted / defaulted)
	Time    uint32
	Memory  uint32
	Threads uint8
	Length  uint32
}

func (p vParam) effR() int {
	if p.R > 0 {
		return p.R
	}
	return 8
}
func (p vParam) effP() int {
	if p.P > 0 {
		return p.P
	}
	return 1
}

func (p vParam) coq() string {
	if p.Scrypt {
		return fmt.Sprintf("(HScrypt %s %d %s %s)", cH(p.Key), p.Cost, cZ(int64(p.effR())), cZ(int64(p.effP())))
	}
	return fmt.Sprintf("(HArgon %d %d %d %d)", p.Time, p.Memory, p.Threads, p.Length)
}

func (p vParam) fmtID() string {
	if p.Scrypt {
		return "hmac_sha256_scrypt"
	}
	return "argon2id"
}

// independent KDF: nil = the library reports an error
func (p vParam) kdf(salt, pw []byte) []byte {
	if p.Scrypt {
		k, err := scrypt.Key(pw, salt, 1<<p.Cost, p.effR(), p.effP(), 32)
		if err != nil {
			return nil
		}
		m := hmac.New(sha256.New, p.Key)
		m.Write(k)
		return m.Sum(nil)
	}
	return argon2.IDKey(pw, salt, p.Time, p.Memory, p.Threads, p.Length)
}

func (p vParam) kdfFails() bool {
	if p.Scrypt {
		_, err := scrypt.Key([]byte("x"), []byte("y"), 1<<p.Cost, p.effR(), p.effP(), 32)
		return err != nil
	}
	return false
}

func vYaml(base string, def uint, ps []vParam) string {
	var b strings.Builder
	fmt.Fprintf(&b, "basedir: %q\n", base)
	fmt.Fprintf(&b, "default: %d\n", def)
	if len(ps) > 0 {
		b.WriteString("params:\n")
	}
	for _, p := range ps {
		fmt.Fprintf(&b, "  - id: %d\n", p.ID)
		if p.Scrypt {
			b.WriteString("    scryptauth:\n")
			fmt.Fprintf(&b, "      hmackey: %q\n", base64.StdEncoding.EncodeToString(p.Key))
			fmt.Fprintf(&b, "      cost: %d\n", p.Cost)
			if p.R != 0 {
				fmt.Fprintf(&b, "      r: %d\n", p.R)
			}
			if p.P != 0 {
				fmt.Fprintf(&b, "      p: %d\n", p.P)
			}
		} else {
			b.WriteString("    argon2id:\n")
			fmt.Fprintf(&b, "      time: %d\n      memory: %d\n      threads: %d\n      length: %d\n", p.Time, p.Memory, p.Threads, p.Length)
		}
	}
	return b.String()
}

func vGenParams(r *vRng, n int) []vParam {
	var ps []vParam
	used := map[uint]bool{}
	for len(ps) < n {
		id := uint(1 + r.intn(9))
		if r.intn(10) == 0 {
			id = uint(1000 + r.intn(100000))
		}
		if used[id] {
			continue
		}
		used[id] = true
		if r.intn(2) == 0 {
			ps = append(ps, vParam{ID: id, Scrypt: true, Key: r.bytes(32), Cost: uint(1 + r.intn(3)), R: []int{0, 1, 2}[r.intn(3)], P: []int{0, 1, 2}[r.intn(3)]})
		} else {
			th := uint8(1 + r.intn(2))
			if r.intn(6) == 0 {
				th = uint8(runtime.NumCPU() + 1) // more lanes than the machine has CPUs
			}
			ps = append(ps, vParam{ID: id, Time: uint32(1 + r.intn(2)), Memory: uint32(8*int(th))*uint32(1+r.intn(2)) + []uint32{0, 0, 1, 3, 5, 7}[r.intn(6)], Threads: th, Length: []uint32{16, 20, 32, 64}[r.intn(4)]})
		}
	}
	return ps
}

// ---- the history recorder ----
type vKdfEntry struct {
	p        vParam
	salt, pw []byte
}

type vHist struct {
	root       string // scratch root; base = root/base
	base       string
	dir        *Dir
	params     []vParam
	def0       uint
	initDir    string // Coq term of the initial directory
	steps      []string
	human      []string
	kdfTab     map[string]string // key -> Coq entry
	shaTab     map[string]string
	salts      [][]byte // every salt written (for C14)
	stats      map[string]int
	lastSnap   string
	known      []vKnown
	pwsWritten [][]byte
}

func vNewHist(root string, ps []vParam, def uint) (*vHist, error) {
	base := filepath.Join(root, "base")
	if err := os.MkdirAll(base, 0700); err != nil {
		return nil, err
	}
	cfgfile := filepath.Join(root, "store.yaml")
	if err := os.WriteFile(cfgfile, []byte(vYaml(base, def, ps)), 0600); err != nil {
		return nil, err
	}
	d, err := NewDirFromConfig(cfgfile)
	if err != nil {
		return nil, fmt.Errorf("NewDirFromConfig: %v\n%s", err, vYaml(base, def, ps))
	}
	h := &vHist{root: root, base: base, dir: d, params: ps, def0: def, kdfTab: map[string]string{}, shaTab: map[string]string{}, stats: map[string]int{}}
	return h, nil
}

func (h *vHist) begin() {
	h.initDir = h.snapshotTerm()
	h.lastSnap = h.initDir
}

func (h *vHist) param(id uint) (vParam, bool) {
	for _, p := range h.params {
		if p.ID == id {
			return p, true
		}
	}
	return vParam{}, false
}

func (h *vHist) addKdf(p vParam, salt, pw []byte) {
	key := p.coq() + "|" + vHex(salt) + "|" + vHex(pw)
	if _, ok := h.kdfTab[key]; ok {
		return
	}
	d := p.kdf(salt, pw)
	out := "None"
	if d != nil {
		out = "(Some " + cH(d) + ")"
	}
	h.kdfTab[key] = fmt.Sprintf("(%s, %s, %s, %s)", p.coq(), cH(salt), cH(pw), out)
	if len(pw) > 64 {
		s := sha256.Sum256(pw)
		h.shaTab[vHex(pw)] = fmt.Sprintf("(%s, %s)", cH(pw), cH(s[:]))
	}
}

// directory snapshot as a Coq term: [(name, File content | Dir [(name, content)])], sorted
func (h *vHist) snapshotTerm() string {
	ents, err := os.ReadDir(h.base)
	if err != nil {
		return "[]"
	}
	var names []string
	for _, e := range ents {
		names = append(names, e.Name())
	}
	sort.Strings(names)
	var xs []string
	for _, n := range names {
		p := filepath.Join(h.base, n)
		st, err := os.Lstat(p)
		if err != nil {
			continue
		}
		if st.IsDir() {
			var kids []string
			sub, _ := os.ReadDir(p)
			for _, k := range sub {
				c, _ := os.ReadFile(filepath.Join(p, k.Name()))
				kids = append(kids, "("+cS(k.Name())+", "+cH(c)+")")
			}
			xs = append(xs, "("+cS(n)+", Dir "+cList(kids)+")")
		} else {
			c, _ := os.ReadFile(p)
			xs = append(xs, "("+cS(n)+", File "+cH(c)+")")
		}
	}
	return cList(xs)
}

func (h *vHist) dirOrder() string {
	f, err := os.Open(h.base)
	if err != nil {
		return "[]"
	}
	defer f.Close()
	names, _ := f.Readdirnames(0)
	var xs []string
	for _, n := range names {
		xs = append(xs, cS(n))
	}
	return cList(xs)
}

// lenient look at a user's files to pre-compute the KDF values an
// authentication of (u, pw) may need
func (h *vHist) prepAuth(u string, pw []byte) {
	for _, ext := range []string{".admin", ".user"} {
		c, err := os.ReadFile(filepath.Join(h.base, u) + ext)
		if err != nil {
			continue
		}
		line := c
		if i := bytes.IndexByte(c, '\n'); i >= 0 {
			line = c[:i+1]
		}
		parts := strings.SplitN(string(line), ":", 4)
		if len(parts) != 4 {
			continue
		}
		id, err := strconv.ParseUint(parts[2], 10, 64)
		if err != nil {
			continue
		}
		p, ok := h.param(uint(id))
		if !ok {
			continue
		}
		hp := strings.Split(parts[3], ":")
		if len(hp) != 2 {
			continue
		}
		salt, err := base64.URLEncoding.DecodeString(hp[0])
		if err != nil {
			continue
		}
		h.addKdf(p, salt, pw)
	}
}

// after a successful write: recover ts and salt from the record, recompute the digest
func (h *vHist) readBack(u string, pw []byte) (ts int64, salt []byte) {
	for _, ext := range []string{".admin", ".user"} {
		c, err := os.ReadFile(filepath.Join(h.base, u) + ext)
		if err != nil {
			continue
		}
		line := c
		if i := bytes.IndexByte(c, '\n'); i >= 0 {
			line = c[:i]
		}
		parts := strings.Split(string(line), ":")
		if len(parts) != 5 {
			return 0, nil
		}
		ts, _ = strconv.ParseInt(parts[1], 10, 64)
		salt, _ = base64.URLEncoding.DecodeString(parts[3])
		if p, ok := h.param(h.dir.Default); ok {
			h.addKdf(p, salt, pw)
		}
		h.salts = append(h.salts, salt)
		h.pwsWritten = append(h.pwsWritten, pw)
		return ts, salt
	}
	return 0, nil
}

func cRes(err error) string {
	if err == nil {
		return "(ORes ROk)"
	}
	return "(ORes RErr)"
}

type vOp struct {
	kind  string
	u     string
	pw    []byte
	admin bool
	id    uint
}

func (o vOp) coq() string {
	switch o.kind {
	case "add":
		return fmt.Sprintf("(OpAdd %s %s %s)", cS(o.u), cH(o.pw), cB(o.admin))
	case "update":
		return fmt.Sprintf("(OpUpdate %s %s)", cS(o.u), cH(o.pw))
	case "setadmin":
		return fmt.Sprintf("(OpSetAdmin %s %s)", cS(o.u), cB(o.admin))
	case "remove":
		return fmt.Sprintf("(OpRemove %s)", cS(o.u))
	case "init":
		return fmt.Sprintf("(OpInit %s %s)", cS(o.u), cH(o.pw))
	case "exists":
		return fmt.Sprintf("(OpExists %s)", cS(o.u))
	case "auth":
		return fmt.Sprintf("(OpAuth %s %s)", cS(o.u), cH(o.pw))
	case "list":
		return "OpList"
	case "listfull":
		return "OpListFull"
	case "check":
		return "OpCheck"
	case "setdefault":
		return fmt.Sprintf("(OpSetDefault %d)", o.id)
	}
	panic("bad op " + o.kind)
}

// exec runs one operation on the real store and appends the step
func (h *vHist) exec(o vOp) (obsOK bool) {
	order := "[]"
	ts, salt := int64(0), []byte(nil)
	var obs string
	res := "err"
	switch o.kind {
	case "add":
		err := h.dir.AddUser(o.u, string(o.pw), o.admin)
		if err == nil {
			ts, salt = h.readBack(o.u, o.pw)
			res = "ok"
		}
		obs = cRes(err)
	case "update":
		err := h.dir.UpdateUser(o.u, string(o.pw))
		if err == nil {
			ts, salt = h.readBack(o.u, o.pw)
			res = "ok"
		}
		obs = cRes(err)
	case "init":
		err := h.dir.Init(o.u, string(o.pw))
		if err == nil {
			ts, salt = h.readBack(o.u, o.pw)
			res = "ok"
		}
		obs = cRes(err)
	case "setadmin":
		err := h.dir.SetAdmin(o.u, o.admin)
		if err == nil {
			res = "ok"
		}
		obs = cRes(err)
	case "remove":
		h.dir.RemoveUser(o.u)
		obs = "(ORes ROk)"
		res = "ok"
	case "exists":
		ex, adm, err := h.dir.Exists(o.u)
		switch {
		case err != nil:
			obs = "(OExists ExErr)"
		case ex:
			obs = "(OExists (ExYes " + cB(adm) + "))"
			res = "ok"
		default:
			obs = "(OExists ExNo)"
			res = "no"
		}
	case "auth":
		h.prepAuth(o.u, o.pw)
		ok, adm, upg, lc := vAuthWatched(h, o.u, string(o.pw))
		if ok {
			obs = fmt.Sprintf("(OAuth true %s %s %s)", cB(adm), cB(upg), cZ(lc.Unix()))
			res = "ok"
		} else {
			obs = "(OAuth false false false 0%Z)"
			res = "no"
		}
	case "list":
		order = h.dirOrder()
		l, err := h.dir.List()
		if err != nil {
			obs = "(OList None)"
		} else {
			var keys []string
			for k := range l {
				keys = append(keys, k)
			}
			sort.Strings(keys)
			var xs []string
			for _, k := range keys {
				xs = append(xs, fmt.Sprintf("(%s, {| ui_admin := %s; ui_ts := %s |})", cS(k), cB(l[k].IsAdmin), cZ(l[k].LastChanged.Unix())))
			}
			obs = "(OList (Some " + cList(xs) + "))"
			res = "ok"
		}
	case "listfull":
		order = h.dirOrder()
		l, err := h.dir.ListFull()
		if err != nil {
			obs = "(OListFull None)"
		} else {
			var keys []string
			for k := range l {
				keys = append(keys, k)
			}
			sort.Strings(keys)
			var xs []string
			for _, k := range keys {
				e := l[k]
				xs = append(xs, fmt.Sprintf("(%s, {| uf_admin := %s; uf_ts := %s; uf_valid := %s; uf_supported := %s; uf_fmt := %s; uf_pid := %d |})",
					cS(k), cB(e.IsAdmin), cZ(e.LastChanged.Unix()), cB(e.IsValid), cB(e.IsSupported), cS(e.FormatID), e.ParamID))
			}
			obs = "(OListFull (Some " + cList(xs) + "))"
			res = "ok"
		}
	case "check":
		order = h.dirOrder()
		err := h.dir.Check()
		if err == nil {
			res = "ok"
		}
		obs = cRes(err)
	case "setdefault":
		h.dir.Default = o.id
		obs = "(ORes ROk)"
		res = "ok"
	}
	snap := h.snapshotTerm()
	snapTerm := "SnapSame"
	if snap != h.lastSnap {
		snapTerm = "(Snap " + snap + ")"
		h.lastSnap = snap
	}
	h.steps = append(h.steps, fmt.Sprintf("(%s, {| o_ts := %s; o_salt := %s; o_tmp := []; o_order := %s |}, %s, %s)",
		o.coq(), cZ(ts), cH(salt), order, obs, snapTerm))
	h.human = append(h.human, fmt.Sprintf("%s(%q,%s,%v,%d)=%s", o.kind, o.u, vHex(o.pw), o.admin, o.id, res))
	h.stats[o.kind+"/"+res]++
	return res == "ok"
}

func (h *vHist) cfgTerm() string {
	var xs []string
	for _, p := range h.params {
		xs = append(xs, fmt.Sprintf("(%d, %s)", p.ID, p.coq()))
	}
	return fmt.Sprintf("{| params := %s; default := %d |}", cList(xs), h.def0)
}

func (h *vHist) tablesTerm() string {
	var fails []string
	for _, p := range h.params {
		if p.kdfFails() {
			fails = append(fails, p.coq())
		}
	}
	var keys []string
	for k := range h.kdfTab {
		keys = append(keys, k)
	}
	sort.Strings(keys)
	var tab []string
	for _, k := range keys {
		tab = append(tab, h.kdfTab[k])
	}
	var sk []string
	for k := range h.shaTab {
		sk = append(sk, k)
	}
	sort.Strings(sk)
	var sha []string
	for _, k := range sk {
		sha = append(sha, h.shaTab[k])
	}
	return fmt.Sprintf("{| t_fails := %s; t_kdf := %s; t_sha := %s; t_known := %s |}", cList(fails), cList(tab), cList(sha), h.knownTerm())
}

func (h *vHist) term() string {
	return fmt.Sprintf("Hist %s %s %s %s", h.cfgTerm(), h.tablesTerm(), h.initDir, cList(h.steps))
}

func (h *vHist) cleanup() { os.RemoveAll(h.root) }

// ---- an independent writer of schema records (not the store's code) ----
func vRecordLine(p vParam, ts int64, salt, digest []byte) string {
	return p.fmtID() + ":" + strconv.FormatInt(ts, 10) + ":" + strconv.FormatUint(uint64(p.ID), 10) + ":" +
		base64.URLEncoding.EncodeToString(salt) + ":" + base64.URLEncoding.EncodeToString(digest)
}

type vKnown struct {
	user  string
	pw    []byte
	admin bool
	ts    int64
	pid   uint
}

// place a record for user directly into the base directory
func (h *vHist) plant(user string, admin bool, p vParam, ts int64, salt, pw []byte, eol string, tail []byte) {
	d := p.kdf(salt, pw)
	content := []byte(vRecordLine(p, ts, salt, d) + eol)
	content = append(content, tail...)
	ext := ".user"
	if admin {
		ext = ".admin"
	}
	if err := os.WriteFile(filepath.Join(h.base, user+ext), content, 0600); err != nil {
		return // e.g. a directory of that name is in the way (generated invalid stores)
	}
	h.addKdf(p, salt, pw)
	h.known = append(h.known, vKnown{user, pw, admin, ts, p.ID})
}

func (h *vHist) knownTerm() string {
	var xs []string
	for _, k := range h.known {
		xs = append(xs, fmt.Sprintf("(%s, {| a_pw := %s; a_admin := %s; a_ts := %s; a_pid := %d |})", cS(k.user), cH(k.pw), cB(k.admin), cZ(k.ts), k.pid))
	}
	return cList(xs)
}

var vAuxSamples = [][]byte{
	nil,
	[]byte("totp: AAAA\n"),
	[]byte("u2f: QUJD\ntotp: REVG\n"),
	[]byte("totp: no-trailing-newline"),
	[]byte("u2f: crlf\r\ntotp: x\r\n"),
	{0x00, 0xff, 0x0a, 0x0a, 0x80, 0x81, 0x0a},
	[]byte("\n\n"),
}

// larger auxiliary data (beyond one 4 KiB buffer): used sparingly, every snapshot carries it
var vAuxBig = [][]byte{vBigAux(6000, true), vBigAux(4096-120, false), vBigAux(9000, true)}

// auxiliary data of about n bytes made of distinguishable lines (a dropped or repeated block shows)
func vBigAux(n int, finalNL bool) []byte {
	var b []byte
	for i := 0; len(b) < n; i++ {
		b = append(b, []byte(fmt.Sprintf("key%04d: %s\n", i, strings.Repeat(string(rune('a'+i%26)), 40)))...)
	}
	if !finalNL {
		b = b[:len(b)-1]
	}
	return b
}

// "never a success, a crash or a hang": authentication runs under a watchdog; a call that does not
// return is a reported input (and counts as a refusal for the rest of the history).
var vHangs []string

func vAuthWatched(h *vHist, u, pw string) (bool, bool, bool, time.Time) {
	type ar struct {
		ok, adm, upg bool
		lc           time.Time
	}
	if len(vHangs) >= 3 {
		return false, false, false, time.Time{} // the agent would be wedged already: enough evidence
	}
	ch := make(chan ar, 1)
	go func() {
		ok, adm, upg, lc, _ := h.dir.Authenticate(u, pw)
		ch <- ar{ok, adm, upg, lc}
	}()
	select {
	case r := <-ch:
		return r.ok, r.adm, r.upg, r.lc
	case <-time.After(8 * time.Second):
		content := []byte(nil)
		for _, ext := range []string{".admin", ".user"} {
			if b, err := os.ReadFile(filepath.Join(h.base, u+ext)); err == nil {
				content = b
			}
		}
		vHangs = append(vHangs, fmt.Sprintf("Authenticate(%q, %q) did not return within 8 s; the user's hash file holds %d bytes: %q", u, pw, len(content), string(truncate(content, 80))))
		return false, false, false, time.Time{}
	}
}
