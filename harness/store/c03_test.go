// C03: every store entry point with names inside and outside the grammar, on
// a tree with a sibling store and decoy files; the whole tree outside the
// base directory must stay byte-identical.
package store

import (
	"crypto/sha256"
	"fmt"
	"os"
	"path/filepath"
	"sort"
	"strings"
)

func treeDigest(root, skip string) map[string][32]byte {
	out := map[string][32]byte{}
	filepath.Walk(root, func(p string, info os.FileInfo, err error) error {
		if err != nil {
			return nil
		}
		if p == skip || strings.HasPrefix(p, skip+"/") {
			return nil
		}
		if info.IsDir() {
			out[p+"/"] = [32]byte{}
			return nil
		}
		b, _ := os.ReadFile(p)
		out[p] = sha256.Sum256(b)
		return nil
	})
	return out
}

func diffDigest(a, b map[string][32]byte) []string {
	var d []string
	for k, v := range a {
		if w, ok := b[k]; !ok || w != v {
			d = append(d, k)
		}
	}
	for k := range b {
		if _, ok := a[k]; !ok {
			d = append(d, k)
		}
	}
	sort.Strings(d)
	return d
}

func c03Names(r *vRng, thorough bool) []string {
	names := []string{"alice", "bob", "Al-1_2.3@x", "", "../other/eve", "../base.user", "x/../bob", "bob/../bob", "/etc/passwd", "/abs",
		"-x", ".x", "_x", "@x", "..", ".", "a/b", "a b", "bob\n", "bob\r", "bob\t", "b\x00b", "\x00", "bob ", " bob", "bob.", "BOB",
		"ü", "bo\xffb", "bob\x7f", "bob:1", "bob;", "bob*", "b?b", "b\\b", "~bob", "$bob", "bob%00",
		strings.Repeat("a", 249), strings.Repeat("a", 250), strings.Repeat("a", 255), strings.Repeat("a", 256), strings.Repeat("a", 4096),
		strings.Repeat("../", 40) + "tmp/x", "alice.user", "alice.admin", ".tmp", ".tmp/x", "root", "carol"}
	// characters outside ASCII whose code point, truncated to a byte or folded, lands on an allowed
	// character (homoglyphs, wide forms, code points that are c + k*256), alone and inside a name
	for _, c := range []rune("a0bzAZ9-_.@") {
		for _, off := range []rune{0x100, 0x400, 0x4E00, 0x1F400, 0xFEE0} {
			u := string(c + off)
			names = append(names, u, "al"+u+"ce", u+"lice", "alic"+u)
		}
	}
	names = append(names, "\u0430dmin", "\u0162ob", "bo\u0301b", "\uff41lice", "alice\u200b", "\u202ealice", "al\u00adice", "\xc0\xaflice", "ali\xed\xa0\x80ce", "\xe2\x80")
	alpha := []byte("ab0-._@/ \n\x00A~:Z9\xff\\*")
	for _, c := range alpha {
		names = append(names, string([]byte{c}))
	}
	for _, c := range alpha {
		for _, d := range alpha {
			if thorough || r.intn(4) == 0 {
				names = append(names, string([]byte{c, d}))
			}
		}
	}
	return names
}

func runC03(em *vEmitter, r *vRng) {
	// valid names first: the footprint clause holds for every name - an operation on <name> touches
	// <name>.user / <name>.admin only, also when other users' names extend it with a dot
	names := append([]string{"alice", "al", "alice.smith", "nobody", "bob", "alice.admin"}, c03Names(r, vThorough())...)
	const per = 12
	for start := 0; start < len(names); start += per {
		end := start + per
		if end > len(names) {
			end = len(names)
		}
		root := vScratch("c03")
		ps := []vParam{{ID: 1, Time: 1, Memory: 8, Threads: 1, Length: 16}}
		h, err := vNewHist(root, ps, 1)
		if err != nil {
			panic(err)
		}
		// decoys around the base directory
		os.MkdirAll(filepath.Join(root, "other"), 0700)
		os.WriteFile(filepath.Join(root, "other", "eve.user"), []byte(vRecordLine(ps[0], 1, []byte("saltsaltsaltsalt"), ps[0].kdf([]byte("saltsaltsaltsalt"), []byte("evepw")))+"\n"), 0600)
		os.WriteFile(filepath.Join(root, "base.user"), []byte(vRecordLine(ps[0], 1, []byte("saltsaltsaltsalt"), ps[0].kdf([]byte("saltsaltsaltsalt"), []byte("pw")))+"\n"), 0600)
		os.WriteFile(filepath.Join(root, "base.admin"), []byte("decoy\n"), 0600)
		os.WriteFile(filepath.Join(root, "x"), []byte("decoy\n"), 0600)
		h.plant("root", true, ps[0], 1600000000, r.bytes(16), []byte("rootpw"), "\n", nil)
		h.plant("alice", false, ps[0], 1600000001, r.bytes(16), []byte("alicepw"), "\n", []byte("totp: x\n"))
		h.plant("bob", false, ps[0], 1600000002, r.bytes(16), []byte("pw"), "\n", nil)
		// users whose names extend another user's name with a dot ('.' is a legal name character), one of
		// them literally called like another user's admin file
		h.plant("alice.smith", false, ps[0], 1600000004, r.bytes(16), []byte("smithpw"), "\n", nil)
		h.plant("alice.admin", false, ps[0], 1600000005, r.bytes(16), []byte("pw5"), "\n", nil)
		h.plant("bob.x", true, ps[0], 1600000006, r.bytes(16), []byte("pw6"), "\n", nil)
		// well-formed records under names outside the grammar, enumerated among the valid ones: they
		// are nobody's account, whatever the listing order
		for k, bad := range []string{"-x", ".hid", "ro ot", "\u0430dmin", "_u", "@u", "zz\x01"} {
			if (start/per+k)%2 == 0 {
				h.plant(bad, k%2 == 0, ps[0], 1600000003, r.bytes(16), []byte("pw"), "\n", nil)
			}
		}
		h.begin()
		before := treeDigest(root, h.base)
		viol := ""
		for _, nm := range names[start:end] {
			ops := []vOp{{kind: "auth", u: nm, pw: []byte("pw")}, {kind: "auth", u: nm, pw: []byte("evepw")}, {kind: "exists", u: nm},
				{kind: "update", u: nm, pw: []byte("hacked")}, {kind: "setadmin", u: nm, admin: true}, {kind: "add", u: nm, pw: []byte("newpw")},
				{kind: "remove", u: nm}, {kind: "list"}}
			for _, o := range ops {
				h.exec(o)
				after := treeDigest(root, h.base)
				if d := diffDigest(before, after); len(d) > 0 && viol == "" {
					viol = fmt.Sprintf("%s(%q) changed objects outside the base directory: %v", o.kind, nm, d)
				}
			}
		}
		h.exec(vOp{kind: "listfull"})
		h.exec(vOp{kind: "check"})
		c := vCase{Prop: "C03", Kind: "history", Class: "names", Nontrivial: true, Coq: h.term(),
			Human: map[string]interface{}{"names": fmt.Sprintf("%q", names[start:end]), "ops": h.human}}
		if viol != "" {
			c.Violation = viol
		}
		em.emit(c)
		for k, v := range h.stats {
			vStats[k] += v
		}
		os.RemoveAll(root)
	}
	// the only administrator has a name outside the grammar; valid users are enumerated around it
	for _, bad := range []string{"-root", ".root", "_root", "@root", "ro ot", "root\x01", "\u0440oot"} {
		root := vScratch("c03a")
		ps := []vParam{{ID: 1, Time: 1, Memory: 8, Threads: 1, Length: 16}}
		h, err := vNewHist(root, ps, 1)
		if err != nil {
			panic(err)
		}
		for i := 0; i < 12; i++ {
			h.plant(fmt.Sprintf("user%02d", i), false, ps[0], 1600000000, r.bytes(16), []byte("pw"), "\n", nil)
		}
		h.plant(bad, true, ps[0], 1600000000, r.bytes(16), []byte("rootpw"), "\n", nil)
		h.known = nil // not a history of accounts: only the directory matters here
		h.begin()
		for _, o := range []vOp{{kind: "check"}, {kind: "list"}, {kind: "listfull"}, {kind: "auth", u: bad, pw: []byte("rootpw")}, {kind: "exists", u: bad},
			{kind: "init", u: "newroot", pw: []byte("pw")}, {kind: "check"}} {
			h.exec(o)
		}
		em.emit(vCase{Prop: "C03", Kind: "history", Class: "invalid-named-admin", Nontrivial: true, Coq: h.term(),
			Human: map[string]interface{}{"admin_file": fmt.Sprintf("%q", bad+".admin"), "ops": h.human}})
		os.RemoveAll(root)
	}
	// the base directory itself is not an object an operation may create: a store whose base directory
	// (or an ancestor) is missing - never existed, or vanished after start-up - stays missing, and no
	// operation succeeds on it
	for _, mode := range []string{"never-existed", "vanished", "ancestor-vanished"} {
		root := vScratch("c03m")
		ps := []vParam{{ID: 1, Time: 1, Memory: 8, Threads: 1, Length: 16}}
		vol := filepath.Join(root, "vol", "auth")
		base := filepath.Join(vol, "main")
		os.MkdirAll(filepath.Join(root, "sibling"), 0700)
		os.WriteFile(filepath.Join(root, "sibling", "eve.user"), []byte("decoy\n"), 0600)
		if mode != "never-existed" {
			os.MkdirAll(base, 0700)
		} else {
			os.MkdirAll(filepath.Join(root, "vol"), 0700)
		}
		cfg := filepath.Join(root, "store.yaml")
		os.WriteFile(cfg, []byte(vYaml(base, 1, ps)), 0600)
		d, err := NewDirFromConfig(cfg)
		if err != nil {
			panic(err)
		}
		if mode != "never-existed" {
			if err := d.Init("root", "rootpw"); err != nil {
				panic(err)
			}
		}
		switch mode {
		case "vanished":
			os.RemoveAll(base)
		case "ancestor-vanished":
			os.RemoveAll(filepath.Join(root, "vol"))
		}
		before := treeDigest(root, "")
		type res struct {
			op string
			ok bool
		}
		var rs []string
		viol := ""
		run := func(op string, f func() error) {
			err := f()
			rs = append(rs, fmt.Sprintf("%s=%v", op, err == nil))
			after := treeDigest(root, "")
			if dd := diffDigest(before, after); len(dd) > 0 && viol == "" {
				viol = fmt.Sprintf("%s on a store whose base directory is missing (%s) created or changed file-system objects: %v", op, mode, dd)
			}
			if err == nil && viol == "" && op != "list" && op != "remove" {
				viol = fmt.Sprintf("%s succeeded on a store whose base directory is missing (%s)", op, mode)
			}
		}
		run("add", func() error { return d.AddUser("alice", "alicepw", false) })
		run("add-admin", func() error { return d.AddUser("newroot", "pw", true) })
		run("update", func() error { return d.UpdateUser("root", "newpw") })
		run("set-admin", func() error { return d.SetAdmin("root", false) })
		run("remove", func() error { d.RemoveUser("root"); return nil })
		run("authenticate", func() error {
			ok, _, _, _, err := d.Authenticate("root", "rootpw")
			if !ok && err == nil {
				err = fmt.Errorf("denied")
			}
			return err
		})
		run("init", func() error { return d.Init("root2", "pw") })
		run("check", func() error { return d.Check() })
		run("list", func() error { _, err := d.List(); return err })
		c := vCase{Prop: "C03", Kind: "missing-base", Class: "missing-base/" + mode, Nontrivial: true,
			Human: map[string]interface{}{"mode": mode, "results": rs}}
		if viol != "" {
			c.Violation = viol
		}
		em.emit(c)
		os.RemoveAll(root)
	}
}
