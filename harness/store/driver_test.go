// Correspondence driver for package store.
package store

import (
	"bytes"
	"crypto/sha256"
	"encoding/base64"
	"fmt"
	"os"
	"path/filepath"
	"strings"
	"sync"
	"testing"
	"time"
)

var vUserPool = []string{"alice", "alice2", "al", "bob", "Bob", "bob.x", "carol@example.org", "d-e_f", "0zero"}
var vExtNames = []string{"dev.user", "dev.admin", "ops.admin", "ops.user", "x.user.admin", "x.admin.user", "user", "admin", "a.user.user", ".user"[1:] + ".x", "tmp", "x.tmp"}
var vBadUsers = []string{"", "../x", "a/b", "-x", ".hidden", "x y", "bob\n", "x/../bob", "/abs", "_u", "@u", "b\x00b", "ü"}

func vScratch(tag string) string {
	d, err := os.MkdirTemp("", "verif-"+tag+"-")
	if err != nil {
		panic(err)
	}
	return d
}

// password generator biased to the near-misses named by C01
func vPassword(r *vRng, known [][]byte) []byte {
	base := [][]byte{[]byte("secret"), []byte("Secret"), []byte("pass:word"), []byte("line\nbreak"), {0}, {0xff, 0xfe, 0x00, 0x01}, []byte("ünï"), []byte(" ")}
	pick := func() []byte {
		if len(known) > 0 && r.intn(3) != 0 {
			return append([]byte{}, known[r.intn(len(known))]...)
		}
		return append([]byte{}, base[r.intn(len(base))]...)
	}
	p := pick()
	switch r.intn(16) {
	case 0:
		return p
	case 1:
		if len(p) > 0 {
			return p[:r.intn(len(p))] // proper prefix
		}
	case 2:
		return append(p, byte('a'+r.intn(26))) // extension
	case 3:
		return append(p, 0) // trailing NUL
	case 4:
		return append(p, ' ')
	case 5:
		return append(p, '\n')
	case 6:
		return bytes.ToUpper(p)
	case 7:
		return bytes.ToLower(p)
	case 8:
		return r.bytes([]int{1, 2, 63, 64, 65, 100}[r.intn(6)])
	case 9:
		return []byte{}
	case 10:
		long := r.bytes(65 + r.intn(200))
		return long
	case 11:
		// sha256 of a known long password (the scrypt key equivalence)
		for _, k := range known {
			if len(k) > 64 {
				s := sha256.Sum256(k)
				return s[:]
			}
		}
	case 12:
		if len(p) > 0 {
			q := append([]byte{}, p...)
			q[r.intn(len(q))] ^= 1 << uint(r.intn(8))
			return q
		}
	case 13:
		return bytes.TrimRight(p, "\x00")
	case 14:
		return r.bytes(2000 + r.intn(3000))
	}
	return p
}

type vHistOpts struct {
	prop      string
	plant     bool // start from records written by the harness's independent writer
	manySets  bool
	emitExtra func(h *vHist, c *vCase)
}

func runHistC01(em *vEmitter, r *vRng, idx int) {
	runRandomHist(em, r, idx, vHistOpts{prop: "C01", plant: idx%3 == 0})
}

func runRandomHist(em *vEmitter, r *vRng, idx int, opt vHistOpts) {
	root := vScratch("hist")
	defer os.RemoveAll(root)
	nsets := 1 + r.intn(4)
	if opt.manySets {
		nsets = 2 + r.intn(3)
	}
	ps := vGenParams(r, nsets)
	def := ps[r.intn(len(ps))].ID
	h, err := vNewHist(root, ps, def)
	if err != nil {
		panic(err)
	}
	if r.intn(4) == 0 {
		os.Mkdir(h.base+"/.tmp", 0700)
	}
	users := append([]string{}, vUserPool[:2+r.intn(5)]...) // up to "bob.x": a name that extends another one with a dot
	if r.intn(3) == 0 {
		users = append(users, strings.Repeat("n", 249), strings.Repeat("m", 250))
	}
	if r.intn(3) == 0 {
		// valid names that contain the file extensions, and each other
		k := r.intn(len(vExtNames))
		users = append(users, vExtNames[k], vExtNames[(k+1+r.intn(3))%len(vExtNames)], vExtNames[(k+5+r.intn(3))%len(vExtNames)])
	}
	var known [][]byte
	cur := map[string][]byte{}
	if opt.plant {
		for i, u := range users {
			if len(u) > 100 || r.intn(3) == 0 {
				continue
			}
			p := ps[r.intn(len(ps))]
			if p.kdfFails() {
				continue
			}
			pw := vPassword(r, known)
			saltLen := 16
			if p.Scrypt {
				saltLen = 32
			}
			eol := "\n"
			tail := vAuxSamples[r.intn(len(vAuxSamples))]
			if idx%6 == 5 && i == 1 {
				tail = vAuxBig[r.intn(len(vAuxBig))] // one user with more than a buffer of auxiliary data
			}
			if len(tail) == 0 && r.intn(4) == 0 {
				eol = ""
			}
			pts := int64(1500000000 + r.intn(100000000))
			switch r.intn(8) {
			case 0: // a record dated in the future (clock stepped back, file from a machine whose clock is ahead)
				pts = time.Now().Unix() + int64(3600+r.intn(90*86400))
			case 1:
				pts = []int64{0, -1, 1, 9223372036854775807, 253402300800}[r.intn(5)]
			}
			h.plant(u, i == 0 || r.intn(4) == 0, p, pts, r.bytes(saltLen), pw, eol, tail)
			known = append(known, pw)
			cur[u] = pw
		}
	}
	h.begin()
	nops := 12 + r.intn(29)
	tsViol := ""
	pickUser := func() string {
		if r.intn(12) == 0 {
			return vBadUsers[r.intn(len(vBadUsers))]
		}
		return users[r.intn(len(users))]
	}
	succMut := false
	authAfterMut := false
	for i := 0; i < nops; i++ {
		var o vOp
		k := r.intn(100)
		switch {
		case k < 16:
			o = vOp{kind: "add", u: pickUser(), pw: vPassword(r, known), admin: r.intn(3) == 0}
		case k < 30:
			o = vOp{kind: "update", u: pickUser(), pw: vPassword(r, known)}
		case k < 38:
			o = vOp{kind: "setadmin", u: pickUser(), admin: r.intn(2) == 0}
		case k < 44:
			o = vOp{kind: "remove", u: pickUser()}
		case k < 46:
			o = vOp{kind: "init", u: pickUser(), pw: vPassword(r, known)}
		case k < 80:
			u := pickUser()
			var pw []byte
			if c, ok := cur[u]; ok && r.intn(2) == 0 {
				pw = append([]byte{}, c...) // the right password
			} else if ok && r.intn(2) == 0 {
				pw = vPassword(r, [][]byte{c}) // near miss of the right one
			} else {
				pw = vPassword(r, known)
			}
			o = vOp{kind: "auth", u: u, pw: pw}
		case k < 85:
			o = vOp{kind: "exists", u: pickUser()}
		case k < 90:
			o = vOp{kind: "list"}
		case k < 93:
			o = vOp{kind: "listfull"}
		case k < 95:
			o = vOp{kind: "check"}
		default:
			id := ps[r.intn(len(ps))].ID
			if r.intn(6) == 0 {
				id = 77777 // unconfigured default
			}
			o = vOp{kind: "setdefault", id: id}
		}
		before := time.Now().Unix()
		ok := h.exec(o)
		after := time.Now().Unix()
		if ok && (o.kind == "add" || o.kind == "update" || o.kind == "init") {
			known = append(known, o.pw)
			cur[o.u] = o.pw
			succMut = true
			// the recorded last-change time must lie within the call window
			ts, _ := h.readBackTs(o.u)
			if ts < before || ts > after {
				tsViol = fmt.Sprintf("record of %q carries time %d outside the call window [%d,%d]", o.u, ts, before, after)
			}
		}
		if ok && o.kind == "remove" {
			delete(cur, o.u)
		}
		if o.kind == "auth" && succMut {
			authAfterMut = true
		}
	}
	class := fmt.Sprintf("hist/%dsets", len(ps))
	if opt.plant {
		class += "/planted"
	}
	c := vCase{Prop: opt.prop, Kind: "history", Class: class, Nontrivial: authAfterMut,
		Coq: h.term(), Human: map[string]interface{}{"ops": h.human, "yaml": vYaml("<base>", def, ps)}}
	if tsViol != "" {
		c.Violation = tsViol
	}
	if opt.emitExtra != nil {
		opt.emitExtra(h, &c)
	}
	em.emit(c)
	for k, v := range h.stats {
		vStats[k] += v
	}
}

var vStats = map[string]int{}

func (h *vHist) readBackTs(u string) (int64, bool) {
	for _, ext := range []string{".admin", ".user"} {
		c, err := os.ReadFile(h.base + "/" + u + ext)
		if err != nil {
			continue
		}
		parts := strings.SplitN(string(c), ":", 3)
		if len(parts) < 3 {
			return 0, false
		}
		var ts int64
		fmt.Sscanf(parts[1], "%d", &ts)
		return ts, true
	}
	return 0, false
}

func TestVerifDriver(t *testing.T) {
	prop := strings.ToUpper(os.Getenv("VERIF_PROP"))
	if prop == "" {
		t.Skip("VERIF_PROP not set")
	}
	em := vOpenEmitter()
	defer em.close()
	r := vNewRng(vSeed())
	switch prop {
	case "C01":
		n := 300
		if vThorough() {
			n = 5000
		}
		for i := 0; i < n; i++ {
			runHistC01(em, r, i)
		}
	case "C02":
		runC02(em, r)
	case "C16":
		nd, nh := 800, 150
		if vThorough() {
			nd, nh = 6000, 1000 // (20 000 / 3 000 until the monitor got its stays-valid clause: over an hour of evaluation)
		}
		for i := 0; i < nd; i++ {
			runC16Dir(em, r, i)
		}
		for i := 0; i < nh; i++ {
			runC16Hist(em, r, i)
		}
	case "C15":
		n := 200
		if vThorough() {
			n = 5000
		}
		for i := 0; i < n; i++ {
			runRandomHist(em, r, i, vHistOpts{prop: "C15", plant: true})
		}
	case "C03":
		runC03(em, r)
	case "C14":
		n := 250
		if vThorough() {
			n = 4000
		}
		for i := 0; i < n; i++ {
			runRandomHist(em, r, i, vHistOpts{prop: "C14", plant: i%2 == 0, manySets: true, emitExtra: c14Extra})
		}
		c14ConcurrentWriters(em, r)
	default:
		t.Fatalf("unknown property %s", prop)
	}
	for i, hg := range vHangs {
		em.emit(vCase{Prop: prop, Kind: "hang", Class: "hang/authenticate", Nontrivial: true, Violation: hg, Human: map[string]interface{}{"n": i}})
	}
	em.emit(vCase{Prop: prop, Kind: "stats", Class: "stats", Human: vStats})
}

var c14Salts = map[string]bool{}

// C14 driver-side clauses: salts never repeat across all writes of the run;
// neither a password nor the HMAC key (raw or base64) appears in the store.
func c14Extra(h *vHist, c *vCase) {
	for _, s := range h.salts {
		k := string(s)
		if c14Salts[k] {
			c.Violation = "a salt was used for two different writes: " + vHex(s)
		}
		c14Salts[k] = true
	}
	var blob []byte
	filepath.Walk(h.base, func(p string, info os.FileInfo, err error) error {
		if err == nil && !info.IsDir() {
			b, _ := os.ReadFile(p)
			blob = append(blob, b...)
			blob = append(blob, 0)
		}
		return nil
	})
	for _, p := range h.params {
		if !p.Scrypt {
			continue
		}
		for _, needle := range [][]byte{p.Key, []byte(base64.StdEncoding.EncodeToString(p.Key)), []byte(base64.URLEncoding.EncodeToString(p.Key))} {
			if bytes.Contains(blob, needle) {
				c.Violation = "the HMAC key of parameter set " + fmt.Sprint(p.ID) + " appears in the store directory"
			}
		}
	}
	for _, pw := range h.pwsWritten {
		if len(pw) >= 6 && bytes.Contains(blob, pw) {
			c.Violation = "a password appears in clear in the store directory: " + vHex(pw)
		}
	}
}

// "a fresh random salt ... never reused across writes", "any number of writes": the library is used from
// several goroutines on one Dir (one process, several writers).  Every record written must carry a salt
// no other write of the run used, of the schema's size, and verify for its password.
func c14ConcurrentWriters(em *vEmitter, r *vRng) {
	rounds, writers := 200, 16
	if vThorough() {
		rounds = 2500
	}
	for _, scr := range []bool{false, true} {
		root := vScratch("c14c")
		var p vParam
		if scr {
			p = vParam{ID: 1, Scrypt: true, Key: r.bytes(32), Cost: 1, R: 1, P: 1}
		} else {
			p = vParam{ID: 1, Time: 1, Memory: 8, Threads: 1, Length: 32}
		}
		h, err := vNewHist(root, []vParam{p}, 1)
		if err != nil {
			panic(err)
		}
		if err := h.dir.Init("root", "rootpw"); err != nil {
			panic(err)
		}
		seen := map[string]string{}
		viol := ""
		nrec := 0
		for round := 0; round < rounds && viol == ""; round++ {
			var wg sync.WaitGroup
			start := make(chan struct{})
			errs := make([]error, writers)
			for w := 0; w < writers; w++ {
				wg.Add(1)
				go func(w int) {
					defer wg.Done()
					defer func() {
						if e := recover(); e != nil {
							errs[w] = fmt.Errorf("panic: %v", e)
						}
					}()
					<-start
					u := fmt.Sprintf("w%02d", w)
					pw := fmt.Sprintf("pw-%d-%d", w, round)
					if round == 0 {
						errs[w] = h.dir.AddUser(u, pw, false)
					} else {
						errs[w] = h.dir.UpdateUser(u, pw)
					}
				}(w)
			}
			close(start)
			wg.Wait()
			for w := 0; w < writers && viol == ""; w++ {
				u := fmt.Sprintf("w%02d", w)
				if errs[w] != nil {
					viol = fmt.Sprintf("round %d: concurrent write for %s failed: %v", round, u, errs[w])
					break
				}
				b, _ := os.ReadFile(filepath.Join(h.base, u+".user"))
				f := strings.Split(strings.SplitN(string(b), "\n", 2)[0], ":")
				if len(f) != 5 {
					viol = fmt.Sprintf("round %d: record of %s is not a schema line: %q", round, u, string(truncate(b, 120)))
					break
				}
				salt, _ := base64.URLEncoding.DecodeString(f[3])
				dig, _ := base64.URLEncoding.DecodeString(f[4])
				want := 16
				if scr {
					want = 32
				}
				nrec++
				if len(salt) != want {
					viol = fmt.Sprintf("round %d: salt of %s has %d bytes", round, u, len(salt))
				} else if prev, dup := seen[string(salt)]; dup {
					viol = fmt.Sprintf("the salt %s was used for two writes: %s and %s (round %d), written by concurrent goroutines on one Dir", vHex(salt), prev, u, round)
				} else if !bytes.Equal(dig, p.kdf(salt, []byte(fmt.Sprintf("pw-%d-%d", w, round)))) {
					viol = fmt.Sprintf("round %d: digest of %s is not the schema's function of its password, salt and parameters", round, u)
				}
				seen[string(salt)] = fmt.Sprintf("%s (round %d)", u, round)
			}
		}
		c := vCase{Prop: "C14", Kind: "concurrent-writers", Class: fmt.Sprintf("concurrent-writers/scrypt=%v", scr), Nontrivial: true,
			Human: map[string]interface{}{"rounds": rounds, "writers": writers, "records_checked": nrec}}
		if viol != "" {
			c.Violation = viol
		}
		em.emit(c)
		os.RemoveAll(root)
	}
}
