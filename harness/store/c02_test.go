// C02: arbitrary / mutated / foreign hash-file contents.
package store

import (
	"bytes"
	"fmt"
	"os"
	"path/filepath"
	"runtime"
	"strings"
	"time"
)

type c02Ctx struct {
	em     *vEmitter
	r      *vRng
	ps     []vParam
	def    uint
	n      int
	budget int
	prior  []byte
}

// one file content -> one history on a fresh directory
// the same, but the Dir has first seen the VALID record [prior] in place of the file and accepted
// rightPw for it; then the file is replaced out of band (state kept by the implementation - caches,
// memoised verdicts - must not outlive the file's content)
func (x *c02Ctx) fileAfterLogin(prior, content []byte, rightPw []byte, class string) {
	x.prior = prior
	x.file(content, rightPw, class+"+after-login", true)
	x.prior = nil
}

func (x *c02Ctx) file(content []byte, rightPw []byte, class string, withModel bool) {
	x.n++
	root := vScratch("c02")
	defer os.RemoveAll(root)
	h, err := vNewHist(root, x.ps, x.def)
	if err != nil {
		panic(err)
	}
	// a healthy admin so that the store itself is valid
	adminP := x.ps[0]
	for _, p := range x.ps {
		if p.ID == x.def {
			adminP = p
		}
	}
	sl := 16
	if adminP.Scrypt {
		sl = 32
	}
	h.plant("root", true, adminP, 1600000000, x.r.bytes(sl), []byte("rootpw"), "\n", nil)
	if x.prior != nil {
		os.WriteFile(filepath.Join(h.base, "victim.user"), x.prior, 0600)
		if ok, _, _, _, _ := h.dir.Authenticate("victim", string(rightPw)); !ok {
			panic("c02: the valid record does not authenticate")
		}
		h.dir.Authenticate("victim", string(rightPw))
	}
	if err := os.WriteFile(filepath.Join(h.base, "victim.user"), content, 0600); err != nil {
		panic(err)
	}
	h.begin()
	wrong := append(append([]byte{}, rightPw...), 'x')
	ops := []vOp{
		{kind: "auth", u: "victim", pw: rightPw},
		{kind: "auth", u: "victim", pw: wrong},
		{kind: "exists", u: "victim"},
		{kind: "list"},
		{kind: "listfull"},
		{kind: "check"},
		{kind: "add", u: "victim", pw: []byte("newpw")},
		{kind: "update", u: "victim", pw: []byte("newpw2")},
		{kind: "auth", u: "victim", pw: []byte("newpw2")},
		{kind: "remove", u: "victim"},
		{kind: "exists", u: "victim"},
	}
	viol := ""
	authOK := false
	done := make(chan struct{})
	go func() {
		defer close(done)
		defer func() {
			if e := recover(); e != nil {
				viol = fmt.Sprintf("panic while handling the file: %v", e)
			}
		}()
		for i, o := range ops {
			ok := h.exec(o)
			if i == 0 && ok {
				authOK = true
			}
		}
	}()
	select {
	case <-done:
	case <-time.After(20 * time.Second):
		viol = "operation on the file did not return within 20 s (hang)"
	}
	c := vCase{Prop: "C02", Kind: "file", Class: class, Nontrivial: true,
		Human: map[string]interface{}{"content_hex": vHex(truncate(content, 400)), "content_len": len(content), "right_pw": vHex(rightPw), "ops": h.human, "auth_right_pw": authOK}}
	if withModel {
		c.Coq = h.term()
	} else {
		// too large for in-Coq evaluation: judged directly by the driver
		c.Kind = "file-impl-only"
		if strings.HasPrefix(class, "valid/") && !authOK && viol == "" {
			viol = "a valid record followed by large auxiliary data does not authenticate"
		}
		if strings.HasPrefix(class, "mut/") && authOK && viol == "" {
			viol = "a file whose first line is not a record authenticates"
		}
	}
	if viol != "" {
		c.Violation = viol
	}
	x.em.emit(c)
	for k, v := range h.stats {
		vStats[k] += v
	}
}

func truncate(b []byte, n int) []byte {
	if len(b) > n {
		return b[:n]
	}
	return b
}

func runC02(em *vEmitter, r *vRng) {
	thorough := vThorough()
	nconf := 2
	if thorough {
		nconf = 8
	}
	for ci := 0; ci < nconf; ci++ {
		ps := vGenParams(r, 4)
		// make sure both algorithms are present
		ps[0] = vParam{ID: ps[0].ID, Scrypt: true, Key: r.bytes(32), Cost: 1, R: 1, P: 1}
		ps[1] = vParam{ID: ps[1].ID, Time: 1, Memory: 8, Threads: 1, Length: 32}
		// and an argon2id set with more lanes than this machine has CPUs: the lane count is an input of
		// the function, not a concurrency knob - a record written elsewhere must verify here
		lanes := uint8(runtime.NumCPU() + 3 + ci)
		if ci%2 == 1 {
			lanes = 255
		}
		ps[3] = vParam{ID: ps[3].ID, Time: 1, Memory: 8 * uint32(lanes), Threads: lanes, Length: 24}
		x := &c02Ctx{em: em, r: r, ps: ps, def: ps[r.intn(4)].ID}
		for pi, p := range ps {
			pw := []byte("correct horse")
			sl := 16
			if p.Scrypt {
				sl = 32
			}
			salt := r.bytes(sl)
			dig := p.kdf(salt, pw)
			line := vRecordLine(p, 1700000000, salt, dig)
			valid := []byte(line + "\n")
			x.file(valid, pw, "valid", true)
			x.file([]byte(line), pw, "valid/no-eol", true)
			x.file([]byte(line+"\r\n"), pw, "valid/crlf", true)
			x.file([]byte(line+"\ntotp: QUJD\n"), pw, "valid/aux", true)
			fields := strings.Split(line, ":")
			join := func(f []string) []byte { return []byte(strings.Join(f, ":") + "\n") }
			// (1) every field emptied / duplicated / swapped pairwise
			for i := range fields {
				f := append([]string{}, fields...)
				f[i] = ""
				x.file(join(f), pw, "mut/field-emptied", true)
				g := append([]string{}, fields[:i+1]...)
				g = append(g, fields[i:]...)
				x.file(join(g), pw, "mut/field-duplicated", true)
				for j := i + 1; j < len(fields); j++ {
					f := append([]string{}, fields...)
					f[i], f[j] = f[j], f[i]
					x.file(join(f), pw, "mut/fields-swapped", true)
				}
				k := append([]string{}, fields[:i]...)
				k = append(k, fields[i+1:]...)
				x.file(join(k), pw, "mut/field-removed", true)
			}
			// (2) truncated at every length
			step := 1
			if !thorough && pi > 0 {
				step = 3
			}
			for l := 0; l < len(valid); l += step {
				x.file(valid[:l], pw, "mut/truncated", true)
			}
			// (3) separators deleted / doubled
			for i, ch := range valid {
				if ch == ':' {
					x.file(append(append([]byte{}, valid[:i]...), valid[i+1:]...), pw, "mut/separator-deleted", true)
					d := append(append([]byte{}, valid[:i]...), ':')
					x.file(append(d, valid[i:]...), pw, "mut/separator-doubled", true)
				}
			}
			// (4) single-byte substitutions
			subs := []byte{':', '\n', '\r', 0, '=', '-', '_', '+', '/', ' ', 'A'}
			npos := 40
			if thorough {
				npos = len(valid)
			}
			for k := 0; k < npos; k++ {
				pos := k
				if !thorough {
					pos = r.intn(len(valid))
				}
				for _, sb := range subs {
					if valid[pos] == sb {
						continue
					}
					if !thorough && r.intn(3) != 0 {
						continue
					}
					m := append([]byte{}, valid...)
					m[pos] = sb
					x.file(m, pw, "mut/byte-substituted", true)
				}
			}
			// inserted bytes (CR/LF/NUL inside base64 fields)
			for k := 0; k < 12; k++ {
				pos := len(fields[0]) + len(fields[1]) + len(fields[2]) + 3 + r.intn(len(fields[3])+len(fields[4])+1)
				for _, ins := range []byte{'\r', '\n', 0, ' '} {
					m := append(append(append([]byte{}, valid[:pos]...), ins), valid[pos:]...)
					x.file(m, pw, "mut/byte-inserted", true)
				}
			}
			// (5) standard instead of URL alphabet, padding removed / added
			std := strings.NewReplacer("-", "+", "_", "/").Replace(line)
			x.file([]byte(std+"\n"), pw, "mut/std-alphabet", true)
			x.file([]byte(strings.ReplaceAll(line, "=", "")+"\n"), pw, "mut/padding-removed", true)
			x.file([]byte(line+"=\n"), pw, "mut/padding-added", true)
			x.file([]byte(line+"==\n"), pw, "mut/padding-added", true)
			// (6) numeric edge cases for time and parameter-set id
			nums := []string{"-1", "+1", "007", "9223372036854775807", "9223372036854775808", "-9223372036854775808", "-9223372036854775809",
				"18446744073709551615", "18446744073709551616", "1e3", "0x10", "", " 1", "1 ", "1_0", "٣", "0", "00", "+0", "-0"}
			for _, nstr := range nums {
				f := append([]string{}, fields...)
				f[1] = nstr
				x.file(join(f), pw, "mut/time-edge", true)
				f = append([]string{}, fields...)
				f[2] = nstr
				x.file(join(f), pw, "mut/paramid-edge", true)
				// leading zeros / plus on the real id keep it the same number
			}
			f := append([]string{}, fields...)
			f[2] = "00" + fields[2]
			x.file(join(f), pw, "mut/paramid-leading-zeros", true)
			f = append([]string{}, fields...)
			f[2] = "+" + fields[2]
			x.file(join(f), pw, "mut/paramid-plus", true)
			f = append([]string{}, fields...)
			f[1] = "+" + fields[1]
			x.file(join(f), pw, "foreign/time-plus", true)
			// (7) other parameter-set ids / other algorithm name
			for _, q := range ps {
				f := append([]string{}, fields...)
				f[2] = fmt.Sprint(q.ID)
				x.file(join(f), pw, "mut/other-paramid", true)
				f = append([]string{}, fields...)
				f[0] = q.fmtID()
				x.file(join(f), pw, "mut/other-algorithm", true)
			}
			f = append([]string{}, fields...)
			f[2] = "424242"
			x.file(join(f), pw, "mut/unknown-paramid", true)
			f = append([]string{}, fields...)
			f[0] = "sha1"
			x.file(join(f), pw, "mut/unknown-algorithm", true)
			// (8) digest of another length: prefix, extension, empty; empty salt with its right digest
			for _, dl := range []int{0, 1, len(dig) - 1, len(dig) / 2} {
				x.file([]byte(vRecordLine(p, 1700000000, salt, dig[:dl])+"\n"), pw, "mut/digest-prefix", true)
			}
			x.file([]byte(vRecordLine(p, 1700000000, salt, append(append([]byte{}, dig...), 0))+"\n"), pw, "mut/digest-extended", true)
			// the same salt with another digest, after the valid record has been accepted on this Dir
			for _, d2 := range [][]byte{dig[:len(dig)-1], append(append([]byte{}, dig...), 0), p.kdf(salt, []byte("another password")), make([]byte, len(dig)), nil, dig[:1]} {
				x.fileAfterLogin(valid, []byte(vRecordLine(p, 1700000000, salt, d2)+"\n"), pw, "mut/digest-replaced")
			}
			flipped := append([]byte{}, dig...)
			flipped[len(flipped)/2] ^= 0x10
			x.fileAfterLogin(valid, []byte(vRecordLine(p, 1700000000, salt, flipped)+"\n"), pw, "mut/digest-bit-flipped")
			x.fileAfterLogin(valid, []byte(line+":AAAA\n"), pw, "mut/field-added")
			x.fileAfterLogin(valid, nil, pw, "edge/emptied")
			x.file([]byte(vRecordLine(p, 1700000000, nil, p.kdf(nil, pw))+"\n"), pw, "edge/empty-salt-right-digest", true)
			x.file([]byte(vRecordLine(p, 1700000000, salt[:len(salt)/2], p.kdf(salt[:len(salt)/2], pw))+"\n"), pw, "foreign/short-salt", true)
			// (8b) digest computed for the right password and salt under a NEIGHBOUR of the configured
			// parameter set (one parameter changed), filed under the configured id: must not authenticate
			for _, q := range c02Near(p) {
				d := q.kdf(salt, pw)
				if d == nil || bytes.Equal(d, dig) {
					continue
				}
				x.file([]byte(vRecordLine(p, 1700000000, salt, d)+"\n"), pw, "foreign/near-parameters", true)
			}
			// (8c) a valid record followed, on the same line, by padding that the base64 decoder skips
			// (CR) and then by junk: the first line is not a record whatever its length, in particular
			// when the junk starts beyond a plausible read-buffer size
			for _, padlen := range []int{1, 100, 4096 - len(line) - 1, 4096 - len(line), 4096 - len(line) + 1, 5000, 8192 - len(line), 70000} {
				if padlen < 0 {
					continue
				}
				for _, tail := range []string{"AAAA", ":AAAA", "!!!!", "\x00"} {
					if padlen > 6000 && tail != "AAAA" {
						continue
					}
					c := append([]byte(line), bytes.Repeat([]byte{'\r'}, padlen)...)
					c = append(c, tail...)
					x.file(append(c, '\n'), pw, "mut/long-line-cr-padding", padlen < 9000)
					if padlen < 9000 {
						x.file(c, pw, "mut/long-line-cr-padding", true) // no EOL
					}
				}
			}
			// the same padding with nothing after it: still the record (CR is skipped)
			x.file(append(append([]byte(line), bytes.Repeat([]byte{'\r'}, 5000)...), '\n'), pw, "valid/cr-padded", true)
			// (9) huge lines
			huge := append([]byte(line), bytes.Repeat([]byte{'A'}, 65536)...)
			x.file(append(huge, '\n'), pw, "mut/huge-line-64k", pi == 0)
			x.file(append(bytes.Repeat([]byte{'x'}, 1<<20), valid...), pw, "mut/huge-prefix-1m", false)
			x.file(append(append([]byte{}, valid...), bytes.Repeat([]byte("aux: data\n"), 20000)...), pw, "valid/huge-aux", false)
		}
		// (10) random bytes and random printable garbage
		nr := 150
		if thorough {
			nr = 2000
		}
		for i := 0; i < nr; i++ {
			x.file(r.bytes(r.intn(200)), []byte("pw"), "random/bytes", true)
			var b strings.Builder
			n := r.intn(5)
			for k := 0; k <= n+3; k++ {
				b.WriteString([]string{"argon2id", "hmac_sha256_scrypt", "1", "7", "AAAA", "QUJD", "", "x", "=", "\n"}[r.intn(10)])
				if r.intn(4) != 0 {
					b.WriteByte(':')
				}
			}
			x.file([]byte(b.String()), []byte("pw"), "random/structured", true)
		}
		// directory instead of a file, empty file
		x.file(nil, []byte("pw"), "edge/empty-file", true)
	}
}

// parameter sets that differ from p in exactly one parameter
func c02Near(p vParam) []vParam {
	var out []vParam
	if p.Scrypt {
		q := p
		q.Cost = p.Cost + 1
		out = append(out, q)
		q = p
		q.R = 3
		out = append(out, q)
		q = p
		q.P = 3
		out = append(out, q)
		q = p
		q.Key = append([]byte{}, p.Key...)
		q.Key[0] ^= 1
		out = append(out, q)
		q = p
		q.Key = p.Key[:len(p.Key)-1]
		out = append(out, q)
		return out
	}
	for _, l := range []uint32{1, 4, 16, 20, 31, 32, 33, 64} {
		if l != p.Length {
			q := p
			q.Length = l
			out = append(out, q)
		}
	}
	q := p
	q.Time = p.Time + 1
	out = append(out, q)
	q = p
	q.Memory = p.Memory * 2
	out = append(out, q)
	q = p
	q.Threads = p.Threads + 1
	if p.Threads == 255 { // uint8: the neighbour of the maximum is below it
		q.Threads = 254
	}
	q.Memory = p.Memory * 2
	out = append(out, q)
	return out
}
