// C19: update hooks - the notify / rate-limit loop with a short interval and
// hook scripts that log their invocation; eligibility of directory entries.
package main

import (
	"fmt"
	"os"
	"path/filepath"
	"sort"
	"strings"
	"syscall"
	"time"
)

func c19Hook(dir, name string, mode os.FileMode, log string) {
	script := fmt.Sprintf("#!/bin/sh\necho \"$(date +%%s%%N)|%s|$#|$1|$WHAWTY_AUTH_STORE\" >> %s\n", name, log)
	os.WriteFile(filepath.Join(dir, name), []byte(script), mode)
	os.Chmod(filepath.Join(dir, name), mode)
}

// a slow hook: logs its start like the others, then keeps running longer than the rate limit
func c19HookSlow(dir, name string, log string, seconds string) {
	script := fmt.Sprintf("#!/bin/sh\necho \"$(date +%%s%%N)|%s|$#|$1|$WHAWTY_AUTH_STORE\" >> %s\nsleep %s\n", name, log, seconds)
	os.WriteFile(filepath.Join(dir, name), []byte(script), 0755)
}

// the hooks caller as the agent builds it, with a short rate limit
func c19Caller(hd, store string, rate time.Duration) *HooksCaller {
	h, err := NewHooksCaller(hd, store)
	if err != nil {
		panic(err)
	}
	h.rateLimit = rate // before the first notification: the run loop reads it when it arms the timer
	return h
}

func c19ReadLog(log string) []string {
	b, _ := os.ReadFile(log)
	var out []string
	for _, l := range strings.Split(string(b), "\n") {
		if l != "" {
			out = append(out, l)
		}
	}
	return out
}

// "a hook that hangs is killed after its time limit": two hanging hooks - one that dies on any signal, one
// that ignores SIGTERM / SIGINT / SIGHUP - are started by one notification of a caller built as the agent
// builds it; shortly after the limit (one minute) neither process may exist any more.  Runs beside the rest
// of the driver (it mostly waits).
func c19KillLimit(done chan<- vCase) {
	root, _ := os.MkdirTemp("", "verif-c19k-")
	defer os.RemoveAll(root)
	hd := filepath.Join(root, "hooks")
	os.Mkdir(hd, 0755)
	pidf := func(n string) string { return filepath.Join(root, n+".pid") }
	os.WriteFile(filepath.Join(hd, "plain"), []byte(fmt.Sprintf("#!/bin/sh\necho $$ > %s\nexec sleep 600\n", pidf("plain"))), 0755)
	os.WriteFile(filepath.Join(hd, "stubborn"), []byte(fmt.Sprintf("#!/bin/sh\ntrap '' TERM INT HUP\necho $$ > %s\nwhile :; do sleep 1; done\n", pidf("stubborn"))), 0755)
	h, err := NewHooksCaller(hd, "/store/K")
	if err != nil {
		panic(err)
	}
	t0 := time.Now()
	h.Notify <- true
	pids := map[string]int{}
	for i := 0; i < 300 && len(pids) < 2; i++ {
		time.Sleep(20 * time.Millisecond)
		for _, n := range []string{"plain", "stubborn"} {
			if b, err := os.ReadFile(pidf(n)); err == nil {
				var p int
				if _, err := fmt.Sscanf(strings.TrimSpace(string(b)), "%d", &p); err == nil && p > 0 {
					pids[n] = p
				}
			}
		}
	}
	alive := func(p int) bool {
		b, err := os.ReadFile(fmt.Sprintf("/proc/%d/stat", p))
		if err != nil {
			return false
		}
		// a zombie that nobody waits for would also be a leak, but the caller does wait: treat Z as gone
		f := strings.Fields(string(b[strings.LastIndexByte(string(b), ')')+1:]))
		return len(f) > 0 && f[0] != "Z"
	}
	limit := time.Minute
	time.Sleep(time.Until(t0.Add(limit / 2)))
	early := map[string]bool{}
	for n, p := range pids {
		early[n] = alive(p)
	}
	time.Sleep(time.Until(t0.Add(limit + 8*time.Second)))
	viol := ""
	late := map[string]bool{}
	for n, p := range pids {
		late[n] = alive(p)
		if late[n] {
			viol += fmt.Sprintf("the hanging hook %q (pid %d) is still running %d s after its start (time limit 60 s); ", n, p, int(time.Since(t0).Seconds()))
			syscall.Kill(p, syscall.SIGKILL)
		}
	}
	if len(pids) < 2 {
		viol = "the hanging hooks were not started by the notification"
	}
	c := vCase{Prop: "C19", Kind: "kill-limit", Class: "kill-limit", Nontrivial: true,
		Human: map[string]interface{}{"pids": pids, "alive_after_30s": early, "alive_after_68s": late}}
	if viol != "" {
		c.Violation = viol
	}
	done <- c
}

func runC19(em *vEmitter, r *vRng) {
	killCase := make(chan vCase, 1)
	go c19KillLimit(killCase)
	defer func() { em.emit(<-killCase) }()
	rate := 300 * time.Millisecond
	// ---- (1) timing patterns ----
	// each pattern: offsets (ms) of notifications; events are well away from the timer edges
	patterns := [][]int{
		{}, {0}, {0, 50}, {0, 50, 100, 150}, {0, 450}, {0, 50, 450}, {0, 100, 200, 700, 750}, {0, 400, 800, 1200},
		{0, 10, 20, 30, 40, 50, 60, 70, 80, 90, 100, 110}, {0, 150, 450, 600, 900}, {0, 700}, {0, 50, 700, 750, 1400},
		{0, 50, 400}, {0, 50, 500}, {0, 50, 100, 450, 1100}, {0, 100, 420, 460, 1000},
	}
	if vThorough() {
		for i := 0; i < 60; i++ {
			var p []int
			t := 0
			for k := r.intn(8); k >= 0; k-- {
				t += []int{20, 50, 100, 450, 700}[r.intn(5)]
				p = append(p, t)
			}
			patterns = append(patterns, p)
		}
	}
	for pi, pat := range patterns {
		root, _ := os.MkdirTemp("", "verif-c19-")
		hd := filepath.Join(root, "hooks")
		os.Mkdir(hd, 0755)
		log := filepath.Join(root, "log")
		c19Hook(hd, "h1", 0755, log)
		hooks := []string{"h1"}
		if pi%2 == 1 {
			c19HookSlow(hd, "slow", log, "0.45")
			hooks = append(hooks, "slow")
		}
		h := c19Caller(hd, "/store/A", rate)
		start := time.Now()
		var sent, sentAbs []int64
		for _, off := range pat {
			d := time.Duration(off)*time.Millisecond - time.Since(start)
			if d > 0 {
				time.Sleep(d)
			}
			sent = append(sent, int64(time.Since(start)/time.Millisecond))
			sentAbs = append(sentAbs, time.Now().UnixNano())
			h.Notify <- true
		}
		time.Sleep(2*rate + 150*time.Millisecond)
		allLines := c19ReadLog(log)
		var lines []string // the starts of h1: one per round
		for _, l := range allLines {
			if f := strings.Split(l, "|"); len(f) > 1 && f[1] == "h1" {
				lines = append(lines, l)
			}
		}
		// reconstruct the model's event sequence: a timer event fires [rate] after each arming notification
		var evs []string
		armedAt := int64(-1)
		pending := 0
		for _, t := range sent {
			if armedAt >= 0 && t >= armedAt+int64(rate/time.Millisecond) {
				evs = append(evs, "HTimer")
				armedAt, pending = -1, 0
			}
			evs = append(evs, "HNotify")
			if pending == 0 {
				armedAt = t
			}
			pending++
		}
		if armedAt >= 0 {
			evs = append(evs, "HTimer")
		}
		// near an edge the interleaving is ambiguous: flag it so the comparison accepts both
		ambiguous := false
		a := int64(-1)
		for _, t := range sent {
			if a < 0 {
				a = t
				continue
			}
			edge := a + int64(rate/time.Millisecond)
			if t > edge-40 && t < edge+40 {
				ambiguous = true
			}
			if t >= edge {
				a = t
			}
		}
		viol := ""
		for _, l := range allLines {
			f := strings.Split(l, "|")
			if len(f) < 5 || f[2] != "1" || f[3] != "update" || f[4] != "/store/A" {
				viol = "hook started with wrong arguments / environment: " + l
			}
		}
		// coverage: every notification is followed by the start of a hook round at or after it
		uncovered := 0
		for _, ts := range sentAbs {
			for _, hk := range hooks { // every eligible hook, also one that is still running from the round before
				cov := false
				for _, l := range allLines {
					f := strings.Split(l, "|")
					var hs int64
					fmt.Sscanf(f[0], "%d", &hs)
					if len(f) > 1 && f[1] == hk && hs >= ts {
						cov = true
					}
				}
				if !cov {
					uncovered++
				}
			}
		}
		c := vCase{Prop: "C19", Kind: "timing", Class: fmt.Sprintf("timing/%d-notifications", len(pat)), Nontrivial: len(pat) > 0,
			Coq:   fmt.Sprintf("Timing %s %d %s %d", cList(evs), len(lines), cB(ambiguous), uncovered),
			Human: map[string]interface{}{"offsets_ms": pat, "sent_ms": sent, "rounds": len(lines), "events": evs, "ambiguous": ambiguous}}
		if viol != "" {
			c.Violation = viol
		}
		em.emit(c)
		os.RemoveAll(root)
		_ = pi
	}
	// ---- (1b) a change acknowledged WHILE a hook round is being started ----
	// many hooks, so that starting a round takes a while; the second notification is sent as soon as the
	// first hook of the round has logged its start.  Every hook must (also) be started at or after it.
	nd := 3
	if vThorough() {
		nd = 12
	}
	for di := 0; di < nd; di++ {
		root, _ := os.MkdirTemp("", "verif-c19d-")
		hd := filepath.Join(root, "hooks")
		os.Mkdir(hd, 0755)
		log := filepath.Join(root, "log")
		hooks := []string{"h1"}
		c19Hook(hd, "h1", 0755, log)
		for k := 0; k < 40+20*di; k++ {
			n := fmt.Sprintf("g%03d", k)
			c19Hook(hd, n, 0755, log)
			hooks = append(hooks, n)
		}
		h := c19Caller(hd, "/store/A", rate)
		start := time.Now()
		h.Notify <- true
		for i := 0; i < 20000 && len(c19ReadLog(log)) == 0; i++ {
			time.Sleep(100 * time.Microsecond)
		}
		startedBefore := len(c19ReadLog(log))
		second := time.Now()
		h.Notify <- true
		// with many hooks a round takes longer than the rate limit: wait until no hook has been started for
		// two intervals (the trailing round follows the timer, which is armed when the first round is done)
		lastN, lastChange := -1, time.Now()
		for time.Since(second) < 15*time.Second {
			time.Sleep(50 * time.Millisecond)
			if n := len(c19ReadLog(log)); n != lastN {
				lastN, lastChange = n, time.Now()
			} else if time.Since(lastChange) > 2*rate+400*time.Millisecond {
				break
			}
		}
		allLines := c19ReadLog(log)
		rounds := 0
		uncovered := 0
		for _, hk := range hooks {
			cov := false
			for _, l := range allLines {
				f := strings.Split(l, "|")
				var hs int64
				fmt.Sscanf(f[0], "%d", &hs)
				if len(f) > 1 && f[1] == hk && hs >= second.UnixNano() {
					cov = true
				}
				if hk == "h1" && len(f) > 1 && f[1] == "h1" {
					rounds++
				}
			}
			if !cov {
				uncovered++
			}
		}
		inWindow := startedBefore < len(hooks)
		ambiguous := int64(second.Sub(start)/time.Millisecond) > int64(rate/time.Millisecond)-40
		em.emit(vCase{Prop: "C19", Kind: "timing", Class: fmt.Sprintf("timing/second-change-during-round/in-window=%v", inWindow), Nontrivial: true,
			Coq: fmt.Sprintf("Timing [HNotify; HNotify; HTimer] %d %s %d", rounds, cB(ambiguous), uncovered),
			Human: map[string]interface{}{"hooks": len(hooks), "hooks_started_when_second_change_was_sent": startedBefore,
				"second_after_ms": int64(second.Sub(start) / time.Millisecond), "rounds": rounds, "hooks_not_started_after_second_change": uncovered}})
		os.RemoveAll(root)
	}

	// ---- (1c) entries that pass the eligibility test but cannot be started (a dangling symbolic link, a
	// script whose interpreter does not exist, a file that is no program) among good hooks: every good
	// hook is started all the same, whatever the listing order
	for di := 0; di < 3; di++ {
		root, _ := os.MkdirTemp("", "verif-c19u-")
		hd := filepath.Join(root, "hooks")
		os.Mkdir(hd, 0755)
		log := filepath.Join(root, "log")
		var good []string
		for k := 0; k < 9; k++ {
			switch k % 3 {
			case 1:
				n := fmt.Sprintf("bad%d", k)
				switch (k/3 + di) % 3 {
				case 0:
					os.Symlink(filepath.Join(root, "does-not-exist"), filepath.Join(hd, n))
				case 1:
					os.WriteFile(filepath.Join(hd, n), []byte("#!/nonexistent/interpreter\nexit 0\n"), 0755)
				case 2:
					os.WriteFile(filepath.Join(hd, n), []byte{0x7f, 'E', 'L', 'F', 0, 0, 0, 0}, 0755)
				}
			default:
				n := fmt.Sprintf("good%d", k)
				c19Hook(hd, n, 0755, log)
				good = append(good, n)
			}
		}
		h := c19Caller(hd, "/store/A", rate)
		h.Notify <- true
		time.Sleep(rate + 300*time.Millisecond)
		started := map[string]bool{}
		for _, l := range c19ReadLog(log) {
			if f := strings.Split(l, "|"); len(f) > 1 {
				started[f[1]] = true
			}
		}
		var missing []string
		for _, g := range good {
			if !started[g] {
				missing = append(missing, g)
			}
		}
		c := vCase{Prop: "C19", Kind: "unstartable", Class: "eligibility/unstartable-entries-among-good-hooks", Nontrivial: true,
			Human: map[string]interface{}{"good_hooks": good, "not_started": missing}}
		if len(missing) > 0 {
			c.Violation = fmt.Sprintf("after a change notification %d of %d eligible hooks were never started (%v): the directory also holds executable entries that cannot be started",
				len(missing), len(good), missing)
		}
		em.emit(c)
		os.RemoveAll(root)
	}

	// ---- (2) store switch: rounds after NewStore carry the new directory ----
	{
		root, _ := os.MkdirTemp("", "verif-c19-")
		hd := filepath.Join(root, "hooks")
		os.Mkdir(hd, 0755)
		log := filepath.Join(root, "log")
		c19Hook(hd, "h1", 0755, log)
		h := c19Caller(hd, "/store/A", rate)
		h.Notify <- true
		time.Sleep(2 * rate)
		announced := vAnnounceStore(h, "/store/B")
		time.Sleep(20 * time.Millisecond)
		h.Notify <- true
		time.Sleep(2 * rate)
		lines := c19ReadLog(log)
		ok := !announced || (len(lines) == 2 && strings.HasSuffix(lines[0], "/store/A") && strings.HasSuffix(lines[1], "/store/B"))
		c := vCase{Prop: "C19", Kind: "newstore", Class: "newstore", Nontrivial: true,
			Coq: fmt.Sprintf("StoreSwitch %s", cB(ok)), Human: map[string]interface{}{"log": lines}}
		if !ok {
			c.Violation = fmt.Sprintf("hook rounds around a store switch: %v", lines)
		}
		em.emit(c)
		os.RemoveAll(root)
	}
	// ---- (3) eligibility ----
	type ent struct {
		name string
		typ  string
		mode os.FileMode
	}
	var ents []ent
	for _, nm := range []string{"plain", ".hidden", "with space", "sub.sh"} {
		for _, m := range []os.FileMode{0644, 0744, 0654, 0645, 0755, 0000, 0111} {
			ents = append(ents, ent{fmt.Sprintf("%s-%o", nm, m), "file", m})
		}
	}
	ndir := 30
	if vThorough() {
		ndir = 300
	}
	for di := 0; di < ndir; di++ {
		root, _ := os.MkdirTemp("", "verif-c19e-")
		hd := filepath.Join(root, "hooks")
		dirMode := []os.FileMode{0755, 0700, 0775, 0757, 0777, 0702}[r.intn(6)]
		os.Mkdir(hd, 0755)
		log := filepath.Join(root, "log")
		var listed []string
		n := 3 + r.intn(6)
		for k := 0; k < n; k++ {
			e := ents[r.intn(len(ents))]
			name := fmt.Sprintf("%s-%d", e.name, k)
			typ := []string{"file", "file", "file", "symlink", "dir", "fifo"}[r.intn(6)]
			mode := e.mode
			switch typ {
			case "file":
				c19Hook(hd, name, mode, log)
			case "symlink":
				target := filepath.Join(root, "target-"+name)
				c19Hook(root, "target-"+name, 0755, log)
				os.Symlink(target, filepath.Join(hd, name))
				mode = 0777 // symlinks report all permission bits
			case "dir":
				os.Mkdir(filepath.Join(hd, name), 0755)
				mode = 0755
			case "fifo":
				syscall.Mkfifo(filepath.Join(hd, name), 0755)
				mode = 0755
			}
			t := map[string]string{"file": "TRegular", "symlink": "TSymlink", "dir": "TDir", "fifo": "TOther"}[typ]
			listed = append(listed, fmt.Sprintf("{| e_name := %s; e_type := %s; e_mode := %d |}", cS(name), t, uint32(mode.Perm())))
		}
		os.Chmod(hd, dirMode)
		h := c19Caller(hd, "/store/A", rate)
		h.Notify <- true
		time.Sleep(250 * time.Millisecond)
		lines := c19ReadLog(log)
		var ran []string
		for _, l := range lines {
			f := strings.Split(l, "|")
			if len(f) >= 2 {
				ran = append(ran, strings.TrimPrefix(f[1], "target-"))
			}
		}
		sort.Strings(ran)
		var rs []string
		for _, x := range ran {
			rs = append(rs, cS(x))
		}
		em.emit(vCase{Prop: "C19", Kind: "eligibility", Class: fmt.Sprintf("eligibility/dir-%o", dirMode), Nontrivial: true,
			Coq:   fmt.Sprintf("Elig %d %s %s", uint32(dirMode.Perm()), cList(listed), cList(rs)),
			Human: map[string]interface{}{"dir_mode": fmt.Sprintf("%o", dirMode), "entries": listed, "ran": ran}})
		os.Chmod(hd, 0755)
		os.RemoveAll(root)
	}
	// ---- (4) through the agent: successful mutations notify, failed ones do not, a hanging hook delays nobody ----
	{
		ms := mNewStore("c19a", r, 1)
		ms.plant("root", true, 1, 1600000000, r.bytes(16), []byte("rootpw"), "")
		hd := filepath.Join(ms.root, "hooks")
		os.Mkdir(hd, 0755)
		log := filepath.Join(ms.root, "log")
		c19Hook(hd, "h1", 0755, log)
		os.WriteFile(filepath.Join(hd, "hang"), []byte("#!/bin/sh\nsleep 30\n"), 0755)
		st, err := NewStore(ms.cfgfile, "", "", "", hd)
		if err != nil {
			panic(err)
		}
		api := st.GetInterface()
		t0 := time.Now()
		api.Add("root", "x", false)        // fails: exists
		api.Update("nobody", "x")          // fails
		api.SetAdmin("nobody", true)       // fails
		api.Authenticate("root", "rootpw") // read-only
		api.List()
		time.Sleep(200 * time.Millisecond)
		n0 := len(c19ReadLog(log))
		api.Add("alice", "pw", false) // succeeds -> round
		lat := time.Since(t0)
		time.Sleep(300 * time.Millisecond)
		n1 := len(c19ReadLog(log))
		t1 := time.Now()
		api.Authenticate("root", "rootpw")
		latAfter := time.Since(t1)
		viol := ""
		if n0 != 0 {
			viol = fmt.Sprintf("failed / read-only operations started %d hook round(s)", n0)
		} else if n1 < 1 {
			viol = "a successful add started no hook"
		} else if latAfter > 2*time.Second || lat > 5*time.Second {
			viol = fmt.Sprintf("a hanging hook delayed the agent (%v)", latAfter)
		}
		c := vCase{Prop: "C19", Kind: "agent", Class: "agent/notify", Nontrivial: true,
			Coq: fmt.Sprintf("AgentNotify %d %d", n0, n1), Human: map[string]interface{}{"rounds_after_failures": n0, "rounds_after_success": n1, "latency_ms": latAfter / time.Millisecond}}
		if viol != "" {
			c.Violation = viol
		}
		em.emit(c)
		ms.cleanup()
	}
}
