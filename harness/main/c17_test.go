// C17: password policy - condition strings, comparators (zxcvbn as oracle),
// and the gate on every write path of the agent.
package main

import (
	"encoding/json"
	"fmt"
	"math"
	"net/http"
	"net/http/httptest"
	"os"
	"reflect"
	"strconv"
	"strings"
	"syscall"
	"time"

	"github.com/nbutton23/zxcvbn-go"
)

func cFl(f float64) string {
	if math.IsInf(f, 1) {
		return "FInf"
	}
	if math.IsNaN(f) || f < 0 {
		return "(FNum 0%Z 0%Z)"
	}
	m, e := math.Frexp(f) // f = m * 2^e, 0.5 <= m < 1
	mi := int64(m * (1 << 53))
	return fmt.Sprintf("(FNum %d%%Z %s)", mi, cZ(int64(e-53)))
}

func c17Strength(pw, user string) string {
	s := zxcvbn.PasswordStrength(pw, []string{user, "whawty"})
	return fmt.Sprintf("{| z_score := %s; z_entropy := %s; z_time := %s |}", cZ(int64(s.Score)), cFl(s.Entropy), cFl(s.CrackTime))
}

// the condition evaluated by the harness itself on the estimator's values
type c17Oracle struct{ cond string }

func (o c17Oracle) Check(pw, user string) (bool, error) {
	f := strings.Fields(o.cond)
	thr, _ := strconv.ParseFloat(f[2], 64)
	z := zxcvbn.PasswordStrength(pw, []string{user, "whawty"})
	switch f[0] {
	case "score":
		return float64(z.Score) >= thr, nil
	case "entropy":
		return z.Entropy >= thr, nil
	default:
		return z.CrackTime >= thr, nil
	}
}

func runC17(em *vEmitter, r *vRng) {
	// (1) condition strings
	conds := []string{"score >= 3", "entropy >= 40", "time >= 100000", "score >= 0", "score >= 4", "score >= 5", "score>=3", "score >=3", "score >= 3 ",
		"  score   >=\t3\n", "score > 3", "score <= 3", "score == 3", ">= score 3", "3 >= score", "Score >= 3", "score >= three", "score >= -1", "score >= +1",
		"score >= 3.0", "score >= 1e1", "score >= 0x2", "score >= 03", "entropy >= 18446744073709551615", "entropy >= 18446744073709551616",
		"time >= 0", "score >= NaN", "entropy >= nan", "time >= Inf", "score >= +Inf", "entropy >= 37.5", "entropy >= 4e1", "score >= 0b11", "score >= 0o3", "score >= 3_0",
		"time >= 18446744073709551615", "time >= 18446744073709551616", "", " ", "score", "score >=", "score >= 3 extra", "score >= 3\x00", "score >= 3", "length >= 8", "entropy => 3", "time >= 1_000"}
	kinds := []string{"score", "entropy", "time", "len", "Score", ""}
	for i := 0; i < 150; i++ {
		k := kinds[r.intn(len(kinds))]
		op := []string{">=", ">=", ">=", ">", "=", "<="}[r.intn(6)]
		t := fmt.Sprint(r.intn(7))
		if r.intn(4) == 0 {
			t = []string{"", "x", "-1", "99999999999999999999", "4", "5", " "}[r.intn(7)]
		}
		sep := []string{" ", "  ", "\t", "", "\n "}
		conds = append(conds, sep[r.intn(2)*r.intn(5)]+k+sep[r.intn(5)]+op+sep[r.intn(5)]+t+sep[r.intn(2)*r.intn(5)])
	}
	for _, ty := range []string{"zxcvbn", "", "other", "ZXCVBN"} {
		for _, c := range conds {
			if ty != "zxcvbn" && len(c) > 12 {
				continue
			}
			p, err := NewPasswordPolicy(ty, c)
			// what was accepted is identified by BEHAVIOUR (the public Check on a panel of passwords whose
			// estimator values the harness computes itself), not by looking into the policy object; the
			// threshold is additionally read by reflection when such a field exists
			probePws := []string{"", "a", "password", "Password1", "alice", "qwertyuiop", "Tr0ub4dor&3", "j8#Kq!2mZ@", "correct horse battery staple",
				"x7Gq2LmPz9Wt4Rb6", "aaaaaaaaaaaaaaaa", strings.Repeat("ab", 40), "Zq8#vP2$kL9@wX4!nB7^",
				strings.Repeat("a", 70) + "Xk9#mQ2$vL7pR4zT!w", strings.Repeat("alice", 15), "aaaaaaaa" + strings.Repeat("quexazol", 8)}
			var probes []string
			thr := "None"
			if err == nil {
				for _, pw := range probePws {
					res, cerr := p.Check(pw, "alice")
					probes = append(probes, fmt.Sprintf("(%s, %s)", c17Strength(pw, "alice"), cB(res && cerr == nil)))
				}
				rv := reflect.ValueOf(p)
				if rv.Kind() == reflect.Struct {
					if f := rv.FieldByName("threshold"); f.IsValid() && f.Kind() >= reflect.Uint && f.Kind() <= reflect.Uint64 {
						thr = fmt.Sprintf("(Some %d)", f.Uint())
					}
				}
			}
			ascii := true
			for i := 0; i < len(c); i++ {
				if c[i] >= 0x80 {
					ascii = false
				}
			}
			cc := vCase{Prop: "C17", Kind: "condition", Class: "condition/" + map[bool]string{true: "accepted", false: "refused"}[err == nil], Nontrivial: true,
				Coq: fmt.Sprintf("CondBehav %s %s %s %s %s", cS(ty), cS(c), cB(err == nil), thr, cList(probes)), Human: map[string]interface{}{"type": ty, "condition": c, "err": fmt.Sprint(err)}}
			if !ascii {
				// strings.Fields also splits on Unicode white space; the model (and the
				// theorem) covers ASCII conditions only: recorded, not compared
				cc.Class = "condition/non-ascii-not-modelled"
				cc.Coq = ""
			}
			em.emit(cc)
		}
	}
	// (2) comparators against the oracle values
	pws := []string{"", "a", "password", "Password1", "correct horse battery staple", "Tr0ub4dor&3", "alice", "alice123", "whawty", "qwertyuiop", "zxcvbn",
		"j8#Kq!2mZ@", "aaaaaaaaaaaaaaaa", "2016-01-01", "ünïcödé pässwörd", "x7Gq2LmPz9Wt4Rb6", strings.Repeat("ab", 40)}
	for _, kt := range []struct {
		k string
		t []uint64
	}{{"score", []uint64{0, 1, 2, 3, 4}}, {"entropy", []uint64{0, 10, 20, 30, 40, 60, 100}}, {"time", []uint64{0, 1, 60, 3600, 1000000, 10000000000}}} {
		for _, t := range kt.t {
			p, err := NewPasswordPolicy("zxcvbn", fmt.Sprintf("%s >= %d", kt.k, t))
			if err != nil {
				panic(err)
			}
			for _, pw := range pws {
				res, _ := p.Check(pw, "alice")
				kind := map[string]string{"score": "KScore", "entropy": "KEntropy", "time": "KTime"}[kt.k]
				em.emit(vCase{Prop: "C17", Kind: "check", Class: "check/" + kt.k, Nontrivial: true,
					Coq:   fmt.Sprintf("PolCheck (PZxcvbn {| p_kind := %s; p_thr := %d |}) %s %s", kind, t, c17Strength(pw, "alice"), cB(res)),
					Human: map[string]interface{}{"kind": kt.k, "threshold": t, "pw": pw, "result": res}})
			}
		}
	}
	// (3) the gate on every write path
	type path struct {
		name string
		run  func(x *c17Agent, user, pw string) (ok bool, errText string)
	}
	paths := []path{
		{"interface/add", func(x *c17Agent, u, pw string) (bool, string) {
			err := x.api.Add(u, pw, false)
			return err == nil, fmt.Sprint(err)
		}},
		{"interface/update", func(x *c17Agent, u, pw string) (bool, string) {
			err := x.api.Update("alice", pw)
			return err == nil, fmt.Sprint(err)
		}},
		{"api/add-by-admin", func(x *c17Agent, u, pw string) (bool, string) {
			return x.post("add", map[string]interface{}{"session": x.adminTok, "username": u, "password": pw, "admin": false})
		}},
		{"api/update-by-admin", func(x *c17Agent, u, pw string) (bool, string) {
			return x.post("update", map[string]interface{}{"session": x.adminTok, "username": "alice", "newpassword": pw})
		}},
		{"api/update-own-session", func(x *c17Agent, u, pw string) (bool, string) {
			return x.post("update", map[string]interface{}{"session": x.userTok, "username": "alice", "newpassword": pw})
		}},
		{"api/update-old-password", func(x *c17Agent, u, pw string) (bool, string) {
			return x.post("update", map[string]interface{}{"username": "bob", "oldpassword": "Tr0ub4dor&3 bob!", "newpassword": pw})
		}},
	}
	conditions := []string{"score >= 3", "entropy >= 45", "time >= 100000"}
	cands := []string{"a", "password", "alice2016", "Tr0ub4dor&3", "correct horse battery staple", "x7Gq2LmPz9Wt4Rb6", "newuser1", "whawty123",
		// longer than any plausible work bound of the estimator: strong only in the tail, weak only as a whole
		strings.Repeat("a", 70) + "Xk9#mQ2$vL7pR4zT!w", strings.Repeat("a", 130) + "Xk9#mQ2$vL7pR4zT!w",
		"aaaaaaaa" + strings.Repeat("newuser8", 9), strings.Repeat("whawty", 14), strings.Repeat("password", 9) + "1",
		strings.Repeat("alice", 15), strings.Repeat("bob", 30)}
	for _, cond := range conditions {
		pol := c17Oracle{cond} // the estimator called directly: no state shared with the agent's policy
		for pi, p := range paths {
			for ci, pw := range cands {
				x := newC17Agent(r, cond, "")
				user := fmt.Sprintf("newuser%d", ci)
				target := user
				if strings.Contains(p.name, "update") {
					target = "alice"
					if strings.Contains(p.name, "old-password") {
						target = "bob"
					}
				}
				verdict, _ := pol.Check(pw, target)
				before := x.ms.snapshotTerm()
				ok, et := p.run(x, user, pw)
				after := x.ms.snapshotTerm()
				viol := ""
				if !verdict && (ok || before != after) {
					viol = fmt.Sprintf("path %s stored / acknowledged a password that fails the policy %q (ok=%v, store changed=%v)", p.name, cond, ok, before != after)
				}
				if verdict && !ok && strings.Contains(et, "policy") {
					viol = fmt.Sprintf("path %s refused on policy grounds a password that satisfies %q", p.name, cond)
				}
				c := vCase{Prop: "C17", Kind: "path", Class: "path/" + p.name, Nontrivial: true,
					Coq:   fmt.Sprintf("PathCase %s %s %s", cB(verdict), cB(ok), cB(before != after)),
					Human: map[string]interface{}{"path": p.name, "condition": cond, "pw": pw, "policy_ok": verdict, "acknowledged": ok, "changed": before != after, "err": truncS(et, 100)}}
				if viol != "" {
					c.Violation = viol
				}
				em.emit(c)
				x.ms.cleanup()
				_ = pi
			}
		}
		// sequences of requests in ONE running agent: a verdict must not depend on what was asked before
		// (in particular not on another user's request whose name and password concatenate to the same string)
		type rq struct{ u, pw string }
		seqs := [][]rq{
			{{"quex", "azolbrimquexazolbrim"}, {"quexazolbrim", "quexazolbrim"}},
			{{"quexazolbrim", "quexazolbrim"}, {"quex", "azolbrimquexazolbrim"}},
			{{"al", "Zq8vP2kL9wX4nB7password"}, {"alZq8vP2kL9wX4nB7", "password"}, {"al", "Zq8vP2kL9wX4nB7password"}},
			{{"alZq8vP2kL9wX4nB7", "password"}, {"al", "Zq8vP2kL9wX4nB7password"}, {"alZq8vP2kL9wX4nB7", "password"}},
			{{"u1", "x7Gq2LmPz9Wt4Rb6"}, {"u2", "x7Gq2LmPz9Wt4Rb6"}, {"u1x7Gq2LmPz9", "Wt4Rb6"}, {"u3", "a"}, {"u3", "x7Gq2LmPz9Wt4Rb6"}, {"u4", "a"}},
			{{"same", "password"}, {"same", "password"}, {"same", "Tr0ub4dor&3 same!"}, {"same2", "password"}},
		}
		for si, sq := range seqs {
			x := newC17Agent(r, cond, "")
			for qi, q := range sq {
				verdict, _ := pol.Check(q.pw, q.u)
				before := x.ms.snapshotTerm()
				err := x.api.Add(q.u, q.pw, false)
				exists := err != nil && strings.Contains(fmt.Sprint(err), "exist")
				if exists { // the user is there from an earlier step: ask for an update instead
					err = x.api.Update(q.u, q.pw)
				}
				after := x.ms.snapshotTerm()
				ok := err == nil
				viol := ""
				if !verdict && (ok || before != after) {
					viol = fmt.Sprintf("request %d of sequence %d stored a password that fails the policy %q: user %q password %q", qi, si, cond, q.u, q.pw)
				}
				if verdict && !ok && strings.Contains(fmt.Sprint(err), "policy") {
					viol = fmt.Sprintf("request %d of sequence %d: a password that satisfies %q was refused on policy grounds: user %q password %q", qi, si, cond, q.u, q.pw)
				}
				c := vCase{Prop: "C17", Kind: "path", Class: "path/sequence", Nontrivial: true,
					Coq:   fmt.Sprintf("PathCase %s %s %s", cB(verdict), cB(ok || !strings.Contains(fmt.Sprint(err), "policy")), cB(before != after)),
					Human: map[string]interface{}{"sequence": si, "request": qi, "condition": cond, "user": q.u, "pw": q.pw, "policy_ok": verdict, "acknowledged": ok, "changed": before != after, "err": truncS(fmt.Sprint(err), 100)}}
				if !verdict {
					c.Coq = fmt.Sprintf("PathCase false %s %s", cB(ok), cB(before != after))
				}
				if viol != "" {
					c.Violation = viol
				}
				em.emit(c)
			}
			x.ms.cleanup()
		}
		// the policy is part of the agent, not of the store configuration: it is still enforced after any
		// number of reload signals (same configuration re-read, new default, a broken file in between)
		{
			x := newC17Agent(r, cond, "")
			good := mYaml(x.ms.base, 1, x.ms.params)
			for ri, doc := range []string{good, "basedir: [broken\n", mYaml(x.ms.base, 2, x.ms.params), good} {
				os.WriteFile(x.ms.cfgfile, []byte(doc), 0600)
				syscall.Kill(os.Getpid(), syscall.SIGHUP)
				time.Sleep(60 * time.Millisecond)
				x.api.List()
				for wi, w := range []struct{ u, pw string }{{fmt.Sprintf("rel%d", ri), "123456"}, {"alice", "password"}, {fmt.Sprintf("rel%dok", ri), "Tr0ub4dor&3 reload " + strconv.Itoa(ri)}} {
					verdict, _ := pol.Check(w.pw, w.u)
					before := x.ms.snapshotTerm()
					var err error
					if w.u == "alice" {
						err = x.api.Update(w.u, w.pw)
					} else if wi == 0 {
						// through the web API with the admin session obtained before the reloads
						b, _ := json.Marshal(map[string]interface{}{"session": x.adminTok, "username": w.u, "password": w.pw, "admin": false})
						rec := httptest.NewRecorder()
						x.mux.ServeHTTP(rec, httptest.NewRequest("POST", "/api/add", strings.NewReader(string(b))))
						if rec.Code != http.StatusOK {
							err = fmt.Errorf("status %d", rec.Code)
						}
					} else {
						err = x.api.Add(w.u, w.pw, false)
					}
					after := x.ms.snapshotTerm()
					c := vCase{Prop: "C17", Kind: "path", Class: "path/after-reload", Nontrivial: true,
						Coq:   fmt.Sprintf("PathCase %s %s %s", cB(verdict), cB(err == nil), cB(before != after)),
						Human: map[string]interface{}{"reloads_so_far": ri + 1, "condition": cond, "user": w.u, "pw": w.pw, "policy_ok": verdict, "acknowledged": err == nil, "changed": before != after}}
					if verdict && err != nil {
						c.Violation = fmt.Sprintf("after %d reload signal(s) a password that satisfies %q was refused: %v", ri+1, cond, err)
					}
					em.emit(c)
				}
			}
			x.ms.cleanup()
		}
		// init path (empty directory) and the local-upgrade path
		for _, pw := range cands[:5] {
			x := newC17AgentEmpty(r, cond)
			verdict, _ := pol.Check(pw, "root")
			err := x.api.Init("root", pw)
			after := x.ms.snapshotTerm()
			changed := after != "[]" && after != x.emptySnap
			viol := ""
			if !verdict && (err == nil || changed) {
				viol = fmt.Sprintf("init stored a password that fails the policy %q", cond)
			}
			c := vCase{Prop: "C17", Kind: "path", Class: "path/interface/init", Nontrivial: true,
				Coq:   fmt.Sprintf("PathCase %s %s %s", cB(verdict), cB(err == nil), cB(changed)),
				Human: map[string]interface{}{"condition": cond, "pw": pw, "policy_ok": verdict, "err": fmt.Sprint(err)}}
			if viol != "" {
				c.Violation = viol
			}
			em.emit(c)
			x.ms.cleanup()
		}
		for _, pw := range []string{"weak", "Tr0ub4dor&3 carol!"} {
			x := newC17Agent(r, cond, "local")
			// carol's record is on a non-default set with this password
			x.ms.plant("carol", false, 3, 1600000009, r.bytes(16), []byte(pw), "")
			verdict, _ := pol.Check(pw, "carol")
			before := x.ms.snapshotTerm()
			ok, _, _, _ := x.api.Authenticate("carol", pw)
			time.Sleep(150 * time.Millisecond)
			after := x.ms.snapshotTerm()
			viol := ""
			if !verdict && before != after {
				viol = fmt.Sprintf("the local hash upgrade re-stored a password that fails the policy %q", cond)
			}
			c := vCase{Prop: "C17", Kind: "path", Class: "path/local-upgrade", Nontrivial: true,
				Coq:   fmt.Sprintf("PathCase %s %s %s", cB(verdict), cB(verdict && before != after), cB(before != after)),
				Human: map[string]interface{}{"condition": cond, "pw": pw, "policy_ok": verdict, "login_ok": ok, "changed": before != after}}
			if viol != "" {
				c.Violation = viol
			}
			em.emit(c)
			x.ms.cleanup()
		}
	}
	// (4) an unparsable policy stops the agent from starting
	for _, bad := range [][2]string{{"zxcvbn", "score > 3"}, {"zxcvbn", ""}, {"nope", "score >= 3"}, {"zxcvbn", "score >= 9"}} {
		ms := mNewStore("c17bad", r, 1)
		_, err := NewStore(ms.cfgfile, "", bad[0], bad[1], "")
		c := vCase{Prop: "C17", Kind: "start", Class: "start/bad-policy", Nontrivial: true,
			Coq: fmt.Sprintf("StartCase %s %s %s", cS(bad[0]), cS(bad[1]), cB(err == nil)), Human: map[string]interface{}{"type": bad[0], "condition": bad[1], "err": fmt.Sprint(err)}}
		if err == nil {
			c.Violation = fmt.Sprintf("the agent started with the unparsable policy %q %q", bad[0], bad[1])
		}
		em.emit(c)
		ms.cleanup()
	}
}

type c17Agent struct {
	ms        *mStore
	api       *Store
	mux       *http.ServeMux
	adminTok  string
	userTok   string
	emptySnap string
}

func newC17Agent(r *vRng, cond, upgrades string) *c17Agent {
	ms := mNewStore("c17", r, 1)
	ms.plant("root", true, 1, 1600000000, r.bytes(16), []byte("Tr0ub4dor&3 root!"), "")
	ms.plant("alice", false, 1, 1600000001, r.bytes(16), []byte("Tr0ub4dor&3 alice!"), "")
	ms.plant("bob", false, 1, 1600000002, r.bytes(16), []byte("Tr0ub4dor&3 bob!"), "")
	st, err := NewStore(ms.cfgfile, upgrades, "zxcvbn", cond, "")
	if err != nil {
		panic(err)
	}
	x := &c17Agent{ms: ms, api: st.GetInterface()}
	x.mux, _ = newWebHandler(x.api)
	_, x.adminTok = x.login("root", "Tr0ub4dor&3 root!")
	_, x.userTok = x.login("alice", "Tr0ub4dor&3 alice!")
	return x
}

func newC17AgentEmpty(r *vRng, cond string) *c17Agent {
	ms := mNewStore("c17e", r, 1)
	st, err := NewStore(ms.cfgfile, "", "zxcvbn", cond, "")
	if err != nil {
		panic(err)
	}
	return &c17Agent{ms: ms, api: st.GetInterface(), emptySnap: ms.snapshotTerm()}
}

func (x *c17Agent) login(u, p string) (bool, string) {
	b, _ := json.Marshal(map[string]string{"username": u, "password": p})
	rec := httptest.NewRecorder()
	x.mux.ServeHTTP(rec, httptest.NewRequest("POST", "/api/authenticate", strings.NewReader(string(b))))
	var resp map[string]interface{}
	json.Unmarshal(rec.Body.Bytes(), &resp)
	s, _ := resp["session"].(string)
	return rec.Code == 200, s
}

func (x *c17Agent) post(ep string, body map[string]interface{}) (bool, string) {
	b, _ := json.Marshal(body)
	rec := httptest.NewRecorder()
	x.mux.ServeHTTP(rec, httptest.NewRequest("POST", "/api/"+ep, strings.NewReader(string(b))))
	return rec.Code == 200, rec.Body.String()
}
