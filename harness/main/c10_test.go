// C10 / C11: concurrent load on the agent's Store interface.
package main

import (
	"fmt"
	"net"
	"net/http"
	"os"
	"path/filepath"
	"reflect"
	"runtime"
	"strings"
	"sync"
	"sync/atomic"
	"syscall"
	"time"

	"github.com/whawty/auth/sasl"
)

func mkHooksDir(root string) string {
	d := filepath.Join(root, "hooks")
	os.Mkdir(d, 0755)
	os.WriteFile(filepath.Join(d, "slow"), []byte("#!/bin/sh\nsleep 1\n"), 0755)
	os.WriteFile(filepath.Join(d, "hang"), []byte("#!/bin/sh\nsleep 30\n"), 0755)
	os.WriteFile(filepath.Join(d, "fail"), []byte("#!/bin/sh\nexit 3\n"), 0755)
	return d
}

type c10Pattern struct {
	name     string
	upgrades func() (string, func())
	hooks    bool
	clients  int
	mix      string // "auth-update", "mixed", "auth-only"
	dur      time.Duration
}

func stalledMaster() (string, func()) {
	ln, err := net.Listen("tcp", "127.0.0.1:0")
	if err != nil {
		panic(err)
	}
	var conns []net.Conn
	var mu sync.Mutex
	go func() {
		for {
			c, err := ln.Accept()
			if err != nil {
				return
			}
			mu.Lock()
			conns = append(conns, c) // accept and never answer
			mu.Unlock()
		}
	}()
	return "http://" + ln.Addr().String() + "/api/update", func() {
		ln.Close()
		mu.Lock()
		for _, c := range conns {
			c.Close()
		}
		mu.Unlock()
	}
}

func unreachableMaster() (string, func()) {
	ln, _ := net.Listen("tcp", "127.0.0.1:0")
	addr := ln.Addr().String()
	ln.Close()
	return "http://" + addr + "/api/update", func() {}
}

func runC10(em *vEmitter, r *vRng) {
	dur := 2500 * time.Millisecond
	if vThorough() {
		dur = 15 * time.Second
	}
	pats := []c10Pattern{
		{"local/auth-vs-update", func() (string, func()) { return "local", func() {} }, false, 40, "auth-update", 0},
		{"local/mixed+hooks", func() (string, func()) { return "local", func() {} }, true, 24, "mixed", 0},
		{"off/mixed", func() (string, func()) { return "", func() {} }, false, 24, "mixed", 0},
		{"remote-unreachable/auth", unreachableMaster, false, 40, "auth-only", 0},
		{"remote-stalled/auth+update", stalledMaster, true, 40, "auth-update", 0},
		{"local/auth-only-burst", func() (string, func()) { return "local", func() {} }, false, 64, "auth-only", 0},
		// long enough for the hook runner's trailing round (5 s after the first change) and for its
		// notification queue (32) to fill behind a hook runner that has stopped draining it
		{"off/mixed+hooks-long", func() (string, func()) { return "", func() {} }, true, 16, "mixed", 9 * time.Second},
	}
	if vThorough() {
		for i := 0; i < 6; i++ {
			pats = append(pats, c10Pattern{fmt.Sprintf("local/auth-vs-update-%d", i), func() (string, func()) { return "local", func() {} }, i%2 == 0, 16 + 16*i, "auth-update", 0})
		}
	}
	// dynamic cross-check of the extracted channel capacities
	{
		ms := mNewStore("c10caps", r, 1)
		st, err := NewStore(ms.cfgfile, "local", "", "", "")
		if err != nil {
			panic(err)
		}
		names := []string{"initChan", "checkChan", "addChan", "removeChan", "updateChan", "setAdminChan", "listChan", "listFullChan", "authenticateChan"}
		var caps []string
		missing := false
		for _, n := range names {
			c := vFieldCap(st, n)
			missing = missing || c < 0
			caps = append(caps, fmt.Sprint(c))
		}
		notify, newstore := vFieldCap(st, "hooks", "Notify"), vFieldCap(st, "hooks", "NewStore")
		missing = missing || notify < 0 || newstore < 0
		alias := false
		if rv := reflect.ValueOf(st).Elem(); rv.FieldByName("upgradeChan").IsValid() && rv.FieldByName("updateChan").IsValid() &&
			rv.FieldByName("upgradeChan").Kind() == reflect.Chan && rv.FieldByName("updateChan").Kind() == reflect.Chan {
			alias = rv.FieldByName("upgradeChan").Pointer() == rv.FieldByName("updateChan").Pointer()
		} else {
			missing = true
		}
		coq := fmt.Sprintf("Caps [%s] %d %d %s", strings.Join(caps, "; "), notify, newstore, cB(alias))
		if missing {
			coq = "" // a queue of that name no longer exists: the extracted facts report it; nothing to compare here
		}
		em.emit(vCase{Prop: "C10", Kind: "caps", Class: "capacities", Nontrivial: true, Coq: coq,
			Human: map[string]interface{}{"request_queues": caps, "notify": notify, "newstore": newstore, "a_queue_is_missing": missing}})
		ms.cleanup()
	}
	// reloads: the agent keeps answering after any number of SIGHUPs (successful and failed ones), with
	// and without a hooks directory
	c10Reloads(em, r)
	c10FdExhaustion(em, r)
	c10ReloadDuringHookRound(em, r)
	c10FailedModification(em, r)
	// a backlog of logins that takes the dispatcher many seconds to work off (expensive hashes): every
	// one of them is answered, and the agent answers other requests afterwards
	c10SlowBurst(em, r)
	for _, p := range pats {
		ms := mNewStore("c10", r, 2) // default = set 2, users planted under set 1 / 3: all upgradeable
		nusers := 30
		for i := 0; i < nusers; i++ {
			pid := uint(1)
			if i%2 == 1 {
				pid = 3
			}
			ms.plant(fmt.Sprintf("user%d", i), i == 0, pid, 1600000000, r.bytes(16), []byte(fmt.Sprintf("pw%d", i)), "")
		}
		mode, stop := p.upgrades()
		hooks := ""
		if p.hooks {
			hooks = mkHooksDir(ms.root)
		}
		st, err := NewStore(ms.cfgfile, mode, "", "", hooks)
		if err != nil {
			panic(err)
		}
		api := st.GetInterface()
		var done, started int64
		var maxLat int64
		pdur := dur
		if p.dur > pdur {
			pdur = p.dur
		}
		deadline := time.Now().Add(pdur)
		var wg sync.WaitGroup
		for c := 0; c < p.clients; c++ {
			wg.Add(1)
			seed := r.next()
			go func(c int, seed uint64) {
				defer wg.Done()
				rr := vNewRng(seed)
				for time.Now().Before(deadline) {
					u := rr.intn(nusers)
					user := fmt.Sprintf("user%d", u)
					t0 := time.Now()
					atomic.AddInt64(&started, 1)
					k := rr.intn(100)
					switch p.mix {
					case "auth-only":
						api.Authenticate(user, fmt.Sprintf("pw%d", u))
					case "auth-update":
						if c%2 == 0 {
							api.Authenticate(user, fmt.Sprintf("pw%d", u))
						} else {
							api.Update(user, fmt.Sprintf("pw%d", u))
						}
					default:
						switch {
						case k < 40:
							api.Authenticate(user, fmt.Sprintf("pw%d", u))
						case k < 55:
							api.Update(user, fmt.Sprintf("pw%d", u))
						case k < 65:
							api.Add(fmt.Sprintf("extra%d", rr.intn(20)), "pw", false)
						case k < 75:
							api.Remove(fmt.Sprintf("extra%d", rr.intn(20)))
						case k < 85:
							api.SetAdmin(user, rr.intn(2) == 0 || u == 0)
						case k < 93:
							api.List()
						default:
							api.Check()
						}
					}
					lat := int64(time.Since(t0))
					for {
						old := atomic.LoadInt64(&maxLat)
						if lat <= old || atomic.CompareAndSwapInt64(&maxLat, old, lat) {
							break
						}
					}
					atomic.AddInt64(&done, 1)
				}
			}(c, seed)
		}
		// watchdog: every started request must complete; no progress for 4 s = stall
		finished := make(chan struct{})
		go func() { wg.Wait(); close(finished) }()
		stalled := false
		dump := ""
		last := int64(-1)
		lastChange := time.Now()
	loop:
		for {
			select {
			case <-finished:
				break loop
			case <-time.After(200 * time.Millisecond):
				d := atomic.LoadInt64(&done)
				if d != last {
					last = d
					lastChange = time.Now()
				} else if time.Since(lastChange) > 4*time.Second {
					stalled = true
					buf := make([]byte, 1<<20)
					n := runtime.Stack(buf, true)
					dump = string(buf[:n])
					break loop
				}
			}
		}
		stop()
		c := vCase{Prop: "C10", Kind: "load", Class: "load/" + p.name, Nontrivial: true,
			Human: map[string]interface{}{"pattern": p.name, "clients": p.clients, "completed": atomic.LoadInt64(&done), "started": atomic.LoadInt64(&started),
				"max_latency_ms": atomic.LoadInt64(&maxLat) / 1e6, "stalled": stalled, "len_updateChan": len(st.updateChan), "len_authChan": len(st.authenticateChan)}}
		if stalled {
			// where is the dispatcher?
			where := "unknown"
			for _, g := range strings.Split(dump, "\n\n") {
				if strings.Contains(g, "dispatchRequests") {
					lines := strings.Split(g, "\n")
					if len(lines) > 0 {
						where = lines[0]
					}
					if len(lines) > 2 {
						where += " | " + strings.TrimSpace(lines[1]) + " | " + strings.TrimSpace(lines[len(lines)-2])
					}
				}
			}
			c.Violation = fmt.Sprintf("the agent stopped answering: %d of %d started requests never completed (pattern %s, upgrades=%q, %d clients); dispatcher goroutine: %s; len(updateChan)=%d",
				atomic.LoadInt64(&started)-atomic.LoadInt64(&done), atomic.LoadInt64(&started), p.name, mode, p.clients, where, len(st.updateChan))
			c.Human.(map[string]interface{})["goroutines"] = truncS(dump, 6000)
		}
		em.emit(c)
		vStats["completed/"+p.name] = int(atomic.LoadInt64(&done))
		if !stalled {
			ms.cleanup()
		}
	}
	em.emit(vCase{Prop: "C10", Kind: "stats", Class: "stats", Human: vStats})
}

var _ = http.StatusOK

func c10SlowBurst(em *vEmitter, r *vRng) {
	ms := mNewStore("c10slow", r, 1)
	// one expensive parameter set (about 0.1 s per hash)
	ms.params = []mParam{{ID: 1, Time: 1, Memory: 8, Threads: 1, Length: 32}, {ID: 2, Scrypt: true, Key: r.bytes(32), Cost: 15}}
	ms.writeCfg()
	nusers := 6
	t0 := time.Now()
	for i := 0; i < nusers; i++ {
		ms.plant(fmt.Sprintf("slow%d", i), i == 0, 2, 1600000000, r.bytes(32), []byte(fmt.Sprintf("pw%d", i)), "")
	}
	perHash := time.Since(t0) / time.Duration(nusers)
	st, err := NewStore(ms.cfgfile, "", "", "", "")
	if err != nil {
		panic(err)
	}
	api := st.GetInterface()
	t0 = time.Now()
	for i := 0; i < 3; i++ {
		api.Authenticate("slow0", "pw0")
	}
	perHash = time.Since(t0) / 3
	want := 14 * time.Second
	if vThorough() {
		want = 40 * time.Second
	}
	n := int(want / (perHash + 1))
	if n < 20 {
		n = 20
	}
	if n > 2000 {
		n = 2000
	}
	var answered, correct int64
	var wg sync.WaitGroup
	start := time.Now()
	for i := 0; i < n; i++ {
		wg.Add(1)
		go func(i int) {
			defer wg.Done()
			u := i % nusers
			ok, _, _, err := api.Authenticate(fmt.Sprintf("slow%d", u), fmt.Sprintf("pw%d", u))
			atomic.AddInt64(&answered, 1)
			if ok && err == nil {
				atomic.AddInt64(&correct, 1)
			}
		}(i)
	}
	done := make(chan struct{})
	go func() { wg.Wait(); close(done) }()
	viol := ""
	select {
	case <-done:
	case <-time.After(want*3 + 30*time.Second):
		viol = fmt.Sprintf("%d of %d logins of a burst were never answered", int64(n)-atomic.LoadInt64(&answered), n)
	}
	burstTook := time.Since(start)
	if viol == "" && atomic.LoadInt64(&correct) != int64(n) {
		viol = fmt.Sprintf("%d of %d valid logins of a burst (backlog of %v) were answered with a refusal or an error", int64(n)-atomic.LoadInt64(&correct), n, burstTook.Round(time.Second))
	}
	// the agent still answers every kind of request
	if viol == "" {
		kinds := map[string]func(){
			"list": func() { api.List() }, "check": func() { api.Check() }, "add": func() { api.Add("after", "pw", false) },
			"update": func() { api.Update("slow1", "pw1") }, "set-admin": func() { api.SetAdmin("slow1", true) },
			"remove": func() { api.Remove("after") }, "authenticate": func() { api.Authenticate("slow0", "pw0") }}
		for k, f := range kinds {
			ch := make(chan struct{})
			go func() { f(); close(ch) }()
			select {
			case <-ch:
			case <-time.After(20 * time.Second):
				viol = fmt.Sprintf("after a login burst with a backlog of %v the agent no longer answers: %s not answered within 20 s", burstTook.Round(time.Second), k)
			}
			if viol != "" {
				break
			}
		}
	}
	c := vCase{Prop: "C10", Kind: "load", Class: "load/slow-hash-burst", Nontrivial: true,
		Human: map[string]interface{}{"logins": n, "per_hash_ms": perHash.Milliseconds(), "burst_s": burstTook.Seconds(), "answered": atomic.LoadInt64(&answered), "correct": atomic.LoadInt64(&correct)}}
	if viol != "" {
		c.Violation = viol
	} else {
		ms.cleanup()
	}
	em.emit(c)
}

func c10Reloads(em *vEmitter, r *vRng) {
	for _, withHooks := range []bool{false, true} {
		ms := mNewStore("c10reload", r, 1)
		ms.plant("root", true, 1, 1600000000, r.bytes(16), []byte("rootpw"), "")
		hooks := ""
		if withHooks {
			hooks = mkHooksDir(ms.root)
		}
		st, err := NewStore(ms.cfgfile, "", "", "", hooks)
		if err != nil {
			panic(err)
		}
		api := st.GetInterface()
		viol := ""
		probe := func(what string) {
			kinds := map[string]func(){"authenticate": func() { api.Authenticate("root", "rootpw") }, "list": func() { api.List() },
				"add": func() { api.Add("n"+what, "pw", false) }, "check": func() { api.Check() }}
			for k, f := range kinds {
				ch := make(chan struct{})
				go func() { f(); close(ch) }()
				select {
				case <-ch:
				case <-time.After(8 * time.Second):
					if viol == "" {
						viol = fmt.Sprintf("%s (hooks directory configured: %v): %s request not answered within 8 s - the agent is wedged", what, withHooks, k)
					}
					return
				}
			}
		}
		good := mYaml(ms.base, 1, ms.params)
		n := 0
		for i, doc := range []string{good, good, "basedir: [broken\n", good, mYaml(ms.base, 2, ms.params), "", good, good} {
			if viol != "" {
				break
			}
			os.WriteFile(ms.cfgfile, []byte(doc), 0600)
			syscall.Kill(os.Getpid(), syscall.SIGHUP)
			time.Sleep(60 * time.Millisecond)
			n++
			probe(fmt.Sprintf("after-reload-%d", i+1))
		}
		c := vCase{Prop: "C10", Kind: "load", Class: fmt.Sprintf("load/reloads/hooks=%v", withHooks), Nontrivial: true,
			Human: map[string]interface{}{"reloads": n, "hooks_dir": withHooks}}
		if viol != "" {
			c.Violation = viol
		} else {
			ms.cleanup()
		}
		em.emit(c)
	}
}

// The process runs out of file descriptors for a moment (a burst of connections on any frontend, many
// hook processes, a low ulimit) while saslauthd clients keep connecting: accept(2) fails with EMFILE.
// When descriptors are available again every frontend must serve as before - the listener loops must
// not have lost anything (a slot, a goroutine, the listener itself) on the failed accepts.
func c10FdExhaustion(em *vEmitter, r *vRng) {
	ms := mNewStore("c10fd", r, 1)
	ms.plant("root", true, 1, 1600000000, r.bytes(16), []byte("rootpw"), "")
	st, err := NewStore(ms.cfgfile, "", "", "", "")
	if err != nil {
		panic(err)
	}
	api := st.GetInterface()
	sock := filepath.Join(ms.root, "sasl.sock")
	go runSaslAuthSocket(sock, api)
	for i := 0; i < 100; i++ {
		if _, err := os.Stat(sock); err == nil {
			break
		}
		time.Sleep(10 * time.Millisecond)
	}
	ask := func(pw string) (ok bool, answered bool) {
		type res struct{ ok bool }
		ch := make(chan res, 1)
		go func() {
			ok, _, err := sasl.NewClient(sock).Auth("root", pw, "svc", "")
			ch <- res{ok && err == nil}
		}()
		select {
		case x := <-ch:
			return x.ok, true
		case <-time.After(8 * time.Second):
			return false, false
		}
	}
	viol := ""
	if ok, ans := ask("rootpw"); !ans || !ok {
		viol = "saslauthd socket does not answer before the test starts"
	}
	rounds, failedDials := 0, 0
	var lim syscall.Rlimit
	syscall.Getrlimit(syscall.RLIMIT_NOFILE, &lim)
	for round := 0; round < 3 && viol == ""; round++ {
		rounds++
		// use up the descriptors: lower the soft limit to just above what is open now, fill the rest
		ents, _ := os.ReadDir("/proc/self/fd")
		low := lim
		low.Cur = uint64(len(ents) + 40)
		if low.Cur > lim.Cur {
			low.Cur = lim.Cur
		}
		syscall.Setrlimit(syscall.RLIMIT_NOFILE, &low)
		var hold []*os.File
		for {
			f, err := os.Open("/dev/null")
			if err != nil {
				break
			}
			hold = append(hold, f)
		}
		// clients connect while nothing is left: each one needs a descriptor of ours, give back one at a time
		var conns []net.Conn
		for k := 0; k < 3 && len(hold) > 0; k++ {
			hold[len(hold)-1].Close()
			hold = hold[:len(hold)-1]
			c, err := net.Dial("unix", sock)
			if err != nil {
				failedDials++
				continue
			}
			conns = append(conns, c)
		}
		time.Sleep(300 * time.Millisecond) // the accept loop meets EMFILE for a while
		for _, f := range hold {
			f.Close()
		}
		syscall.Setrlimit(syscall.RLIMIT_NOFILE, &lim)
		for _, c := range conns {
			c.Close()
		}
		time.Sleep(50 * time.Millisecond)
		for i := 0; i < 6 && viol == ""; i++ {
			pw := []string{"rootpw", "wrong"}[i%2]
			ok, ans := ask(pw)
			if !ans {
				viol = fmt.Sprintf("after the process had run out of file descriptors for 300 ms (round %d, accept on the saslauthd socket failing with EMFILE) "+
					"a saslauthd request is not answered within 8 s: the socket no longer serves", round+1)
			} else if ok != (pw == "rootpw") {
				viol = fmt.Sprintf("after descriptor exhaustion the saslauthd socket answers %v for password %q", ok, pw)
			}
		}
		// and the agent itself still answers
		done := make(chan struct{})
		go func() { api.Authenticate("root", "rootpw"); api.List(); close(done) }()
		select {
		case <-done:
		case <-time.After(8 * time.Second):
			if viol == "" {
				viol = "after descriptor exhaustion the agent's dispatcher does not answer within 8 s"
			}
		}
	}
	syscall.Setrlimit(syscall.RLIMIT_NOFILE, &lim)
	c := vCase{Prop: "C10", Kind: "load", Class: "env/fd-exhaustion", Nontrivial: true,
		Human: map[string]interface{}{"rounds": rounds, "dials_refused_for_lack_of_descriptors": failedDials}}
	if viol != "" {
		c.Violation = viol
	} else {
		ms.cleanup()
	}
	em.emit(c)
}

// A reload signal that reaches the dispatcher WHILE the hook runner is in the middle of a round (many
// hooks, so that starting a round takes a while; the reload follows the modification at once).  Whatever
// the two goroutines share, every request kind must be answered afterwards, for several rounds.
func c10ReloadDuringHookRound(em *vEmitter, r *vRng) {
	ms := mNewStore("c10hr", r, 1)
	ms.plant("root", true, 1, 1600000000, r.bytes(16), []byte("rootpw"), "")
	hd := filepath.Join(ms.root, "hooks")
	os.Mkdir(hd, 0755)
	truebin := "/bin/true"
	if _, err := os.Stat(truebin); err != nil {
		truebin = "/usr/bin/true"
	}
	for i := 0; i < 300; i++ {
		os.Symlink(truebin, filepath.Join(hd, fmt.Sprintf("h%03d", i)))
	}
	st, err := NewStore(ms.cfgfile, "", "", "", hd)
	if err != nil {
		panic(err)
	}
	api := st.GetInterface()
	viol := ""
	rounds := 0
	for round := 0; round < 4 && viol == ""; round++ {
		rounds++
		calls := []struct {
			name string
			f    func()
		}{
			{"add", func() { api.Add(fmt.Sprintf("u%d", round), "pw", false) }},
			{"reload+list", func() { syscall.Kill(os.Getpid(), syscall.SIGHUP); api.List() }},
			{"authenticate", func() { api.Authenticate("root", "rootpw") }},
			{"set-admin", func() { api.SetAdmin(fmt.Sprintf("u%d", round), true) }},
			{"reload+check", func() { syscall.Kill(os.Getpid(), syscall.SIGHUP); api.Check() }},
			{"remove", func() { api.Remove(fmt.Sprintf("u%d", round)) }},
		}
		for _, c := range calls {
			done := make(chan struct{})
			go func() { c.f(); close(done) }()
			select {
			case <-done:
			case <-time.After(10 * time.Second):
				viol = fmt.Sprintf("round %d: %s not answered within 10 s after a modification immediately followed by a reload signal, "+
					"with 300 hooks configured (the reload met a hook round in progress): the agent is wedged", round+1, c.name)
			}
			if viol != "" {
				break
			}
		}
		time.Sleep(time.Duration(r.intn(40)) * time.Millisecond)
	}
	c := vCase{Prop: "C10", Kind: "load", Class: "load/reload-during-hook-round", Nontrivial: true,
		Human: map[string]interface{}{"rounds": rounds, "hooks": 300}}
	if viol != "" {
		c.Violation = viol
	} else {
		ms.cleanup()
	}
	em.emit(c)
}

// A modification that FAILS inside the store library (the hash file cannot be created: a dangling symbolic
// link occupies the name, '.tmp' is a regular file) must leave the agent as responsive as one that
// succeeds: every request kind is probed after each failure, with local upgrades on.
func c10FailedModification(em *vEmitter, r *vRng) {
	ms := mNewStore("c10fm", r, 3)
	ms.plant("root", true, 3, 1600000000, r.bytes(16), []byte("rootpw"), "")
	ms.plant("erin", false, 1, 1600000001, r.bytes(16), []byte("erinpw"), "") // upgradeable
	os.Symlink("../nowhere/carol.user", filepath.Join(ms.base, "carol.user"))
	os.Symlink("../nowhere/mallory.admin", filepath.Join(ms.base, "mallory.admin"))
	st, err := NewStore(ms.cfgfile, "local", "", "", "")
	if err != nil {
		panic(err)
	}
	api := st.GetInterface()
	viol := ""
	step := func(name string, f func()) {
		if viol != "" {
			return
		}
		done := make(chan struct{})
		go func() { f(); close(done) }()
		select {
		case <-done:
		case <-time.After(10 * time.Second):
			viol = fmt.Sprintf("%s not answered within 10 s (after modifications that failed inside the store library): the agent is wedged", name)
		}
	}
	steps := 0
	for round := 0; round < 2; round++ {
		for _, c := range []struct {
			name string
			f    func()
		}{
			{"add carol (the name is a dangling symbolic link)", func() { api.Add("carol", "pw", false) }},
			{"list", func() { api.List() }},
			{"add dave", func() { api.Add(fmt.Sprintf("dave%d", round), "pw", false) }},
			{"add mallory as admin (dangling link)", func() { api.Add("mallory", "pw", true) }},
			{"update root", func() { api.Update("root", "rootpw") }},
			{"login of an upgradeable user", func() { api.Authenticate("erin", "erinpw") }},
			{"set-admin dave", func() { api.SetAdmin(fmt.Sprintf("dave%d", round), true) }},
			{"remove dave", func() { api.Remove(fmt.Sprintf("dave%d", round)) }},
			{"check", func() { api.Check() }},
			{"authenticate", func() { api.Authenticate("root", "rootpw") }},
		} {
			step(c.name, c.f)
			steps++
		}
		if round == 0 {
			// from now on no record can be rewritten at all
			os.RemoveAll(filepath.Join(ms.base, ".tmp"))
			os.WriteFile(filepath.Join(ms.base, ".tmp"), []byte("not a directory"), 0600)
		}
	}
	c := vCase{Prop: "C10", Kind: "load", Class: "env/failed-modifications", Nontrivial: true, Human: map[string]interface{}{"steps": steps}}
	if viol != "" {
		c.Violation = viol
	} else {
		ms.cleanup()
	}
	em.emit(c)
}
