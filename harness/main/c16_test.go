// C16 (agent level): the command line refuses to run a command on a directory that fails the
// consistency check unless --do-check=false, and a reload never switches to such a directory.
package main

import (
	"fmt"
	"os"
	"os/exec"
	"path/filepath"
	"sync"
	"syscall"
	"time"
)

type c16Dir struct {
	name  string
	build func(ms *mStore, r *vRng)
}

func c16Dirs() []c16Dir {
	base := func(ms *mStore, r *vRng) {
		ms.plant("root", true, 1, 1600000000, r.bytes(16), []byte("rootpw"), "")
		ms.plant("alice", false, 2, 1600000001, r.bytes(32), []byte("alicepw"), "totp: QQ==\n")
	}
	w := func(ms *mStore, n string, c string) { os.WriteFile(filepath.Join(ms.base, n), []byte(c), 0600) }
	return []c16Dir{
		{"valid", base},
		{"valid+tmpdir", func(ms *mStore, r *vRng) { base(ms, r); os.Mkdir(filepath.Join(ms.base, ".tmp"), 0700) }},
		{"both-extensions", func(ms *mStore, r *vRng) { base(ms, r); w(ms, "alice.admin", "x\n") }},
		{"both-extensions-of-admin", func(ms *mStore, r *vRng) { base(ms, r); w(ms, "root.user", "x\n") }},
		{"no-admin", func(ms *mStore, r *vRng) {
			ms.plant("alice", false, 1, 1600000001, r.bytes(16), []byte("alicepw"), "")
		}},
		{"admin-unsupported", func(ms *mStore, r *vRng) {
			ms.plant("alice", false, 1, 1600000001, r.bytes(16), []byte("alicepw"), "")
			w(ms, "root.admin", "argon2id:1:99:AAAA:AAAA\n")
		}},
		{"stray-file", func(ms *mStore, r *vRng) { base(ms, r); w(ms, "notes.txt", "hello") }},
		{"no-extension", func(ms *mStore, r *vRng) { base(ms, r); w(ms, "alice", "hello") }},
		{"subdirectory", func(ms *mStore, r *vRng) { base(ms, r); os.Mkdir(filepath.Join(ms.base, "sub"), 0700) }},
		{"large+both-extensions", func(ms *mStore, r *vRng) {
			base(ms, r)
			c, _ := os.ReadFile(filepath.Join(ms.base, "alice.user"))
			for i := 0; i < 40; i++ {
				w(ms, fmt.Sprintf("filler%d.user", i), string(c))
			}
			w(ms, fmt.Sprintf("filler%d.admin", r.intn(40)), string(c))
		}},
		{"empty", func(ms *mStore, r *vRng) {}},
	}
}

func runC16(em *vEmitter, r *vRng) {
	bin := filepath.Join(os.Getenv("VERIF_DIR"), ".build", "whawty-auth")
	cmds := [][]string{{"list"}, {"list", "full"}, {"add", "newuser", "newpw"}, {"update", "alice", "pw2"}, {"remove", "alice"},
		{"set-admin", "alice", "true"}, {"authenticate", "alice", "alicepw"}}
	for _, d := range c16Dirs() {
		for ci, cmd := range cmds {
			for _, docheck := range []bool{true, false} {
				if !docheck && !vThorough() && ci%3 != 0 {
					continue
				}
				ms := mNewStore("c16a", r, 1)
				d.build(ms, r)
				before := ms.snapshotTerm()
				args := []string{"--store", ms.cfgfile}
				if !docheck {
					args = append(args, "--do-check=false")
				}
				args = append(args, cmd...)
				c := exec.Command(bin, args...)
				out, _ := c.CombinedOutput()
				so := string(out)
				refused := contains(so, "checking whawty store failed")
				after := ms.snapshotTerm()
				viol := ""
				if contains(so, "panic:") || contains(so, "goroutine ") {
					viol = "the command crashed: " + truncS(so, 300)
				}
				em.emit(vCase{Prop: "C16", Kind: "gate", Class: fmt.Sprintf("gate/%s/docheck=%v", d.name, docheck), Nontrivial: true,
					Coq:       fmt.Sprintf("GateCase %s %s %s %s %s", ms.cfgTerm(), before, cB(docheck), cB(!refused), cB(before != after)),
					Human:     map[string]interface{}{"dir": d.name, "cmd": cmd, "do_check": docheck, "refused": refused, "changed": before != after, "output": truncS(so, 200)},
					Violation: viol})
				ms.cleanup()
			}
		}
	}
	// reload: the running agent switches to the new configuration exactly when the new directory
	// passes the check under the new configuration
	type rl struct {
		name  string
		apply func(ms *mStore, r *vRng) (*mStore, uint) // returns the new (cfg view, default)
	}
	rls := []rl{
		{"same-dir/new-default", func(ms *mStore, r *vRng) (*mStore, uint) { n := *ms; n.def = 2; return &n, 2 }},
		{"same-dir/admin-set-dropped", func(ms *mStore, r *vRng) (*mStore, uint) {
			n := *ms
			n.params = nil
			for _, p := range ms.params {
				if p.ID != 1 {
					n.params = append(n.params, p)
				}
			}
			n.def = 2
			return &n, 2
		}},
		{"same-dir/became-inconsistent", func(ms *mStore, r *vRng) (*mStore, uint) {
			os.WriteFile(filepath.Join(ms.base, "alice.admin"), []byte("x\n"), 0600)
			n := *ms
			n.def = 2
			return &n, 2
		}},
		{"same-dir/stray-file", func(ms *mStore, r *vRng) (*mStore, uint) {
			os.WriteFile(filepath.Join(ms.base, "README"), []byte("x\n"), 0600)
			n := *ms
			n.def = 3
			return &n, 3
		}},
		{"new-dir/empty", func(ms *mStore, r *vRng) (*mStore, uint) {
			n := *ms
			n.base = filepath.Join(ms.root, "nb")
			os.Mkdir(n.base, 0700)
			n.def = 2
			return &n, 2
		}},
		{"new-dir/valid", func(ms *mStore, r *vRng) (*mStore, uint) {
			n := *ms
			n.base = filepath.Join(ms.root, "nb")
			os.Mkdir(n.base, 0700)
			n.def = 3
			n.kdfTab = map[string]string{}
			n.plant("root", true, 3, 1600000000, r.bytes(16), []byte("rootpw"), "")
			return &n, 3
		}},
	}
	for _, x := range rls {
		ms := mNewStore("c16r", r, 1)
		ms.plant("root", true, 1, 1600000000, r.bytes(16), []byte("rootpw"), "")
		ms.plant("alice", false, 1, 1600000001, r.bytes(16), []byte("alicepw"), "")
		st, err := NewStore(ms.cfgfile, "", "", "", "")
		if err != nil {
			panic(err)
		}
		api := st.GetInterface()
		api.Authenticate("root", "rootpw")
		n, newDef := x.apply(ms, r)
		newSnap := n.snapshotTerm()
		os.WriteFile(ms.cfgfile, []byte(mYaml(n.base, n.def, n.params)), 0600)
		syscall.Kill(os.Getpid(), syscall.SIGHUP)
		time.Sleep(60 * time.Millisecond)
		api.List() // a request behind the reload in the dispatcher
		api.Add("probe", "probepw", false)
		pid := firstLinePid(filepath.Join(n.base, "probe.user"))
		accepted := pid == int(newDef)
		if n.base != ms.base {
			accepted = fileExistsT(filepath.Join(n.base, "probe.user"))
		}
		em.emit(vCase{Prop: "C16", Kind: "reload", Class: "reload/" + x.name, Nontrivial: true,
			Coq:   fmt.Sprintf("ReloadGate %s %s %s", n.cfgTerm(), newSnap, cB(accepted)),
			Human: map[string]interface{}{"kind": x.name, "accepted": accepted, "probe_pid": pid}})
		ms.cleanup()
		if n.base != ms.base {
			os.RemoveAll(n.base)
		}
	}
	// concurrent requests for the same new name in both classes: however they interleave, the store never
	// ends up with two files for one user and stays valid (judged by the model's check of the final directory)
	for k := 0; k < 6; k++ {
		ms := mNewStore("c16c", r, 2) // scrypt default: hashing takes long enough for requests to overlap
		ms.params[1].Cost = 12
		ms.writeCfg()
		ms.plant("root", true, 1, 1600000000, r.bytes(16), []byte("rootpw"), "")
		st, err := NewStore(ms.cfgfile, "", "", "", "")
		if err != nil {
			panic(err)
		}
		var wg sync.WaitGroup
		oks := make([]bool, 8)
		for g := 0; g < 8; g++ {
			wg.Add(1)
			go func(g int) {
				defer wg.Done()
				api := st.GetInterface()
				name := fmt.Sprintf("twin%d", g/2)
				oks[g] = api.Add(name, "pw", g%2 == 0) == nil
			}(g)
		}
		wg.Wait()
		snap := ms.snapshotTerm()
		nok := 0
		for _, o := range oks {
			if o {
				nok++
			}
		}
		viol := ""
		for g := 0; g < 8; g += 2 {
			if oks[g] && oks[g+1] {
				viol = fmt.Sprintf("both add(twin%d, user) and add(twin%d, admin) were acknowledged", g/2, g/2)
			}
		}
		em.emit(vCase{Prop: "C16", Kind: "concurrent-add", Class: "agent/concurrent-add", Nontrivial: true,
			Coq:   fmt.Sprintf("ReloadGate %s %s true", ms.cfgTerm(), snap),
			Human: map[string]interface{}{"acknowledged": nok}, Violation: viol})
		ms.cleanup()
	}
	// the work area is empty after each COMPLETED operation - also for the command line, whose process
	// ends when the command is done: `authenticate` with local upgrades waits 100 ms for the queued upgrade
	// and exits; with a default parameter set that takes longer to hash, the exit falls into the upgrade
	bin = filepath.Join(os.Getenv("VERIF_DIR"), ".build", "whawty-auth")
	if _, err := os.Stat(bin); err == nil {
		for k := 0; k < 3; k++ {
			ms := mNewStore("c16w", r, 3)
			ms.params[2].Time, ms.params[2].Memory, ms.params[2].Threads = 3, 160*1024, 1 // the default: about half a second per hash
			ms.writeCfg()
			ms.plant("root", true, 1, 1600000000, r.bytes(16), []byte("rootpw"), "")
			ms.plant("alice", false, 1, 1600000001, r.bytes(16), []byte("alicepw"), "")
			os.Mkdir(filepath.Join(ms.base, ".tmp"), 0700)
			var outs []string
			residue := 0
			for i := 0; i < 2; i++ {
				cmd := exec.Command(bin, "--store", ms.cfgfile, "--do-upgrades", "local", "authenticate", "alice", "alicepw")
				out, err := cmd.CombinedOutput()
				outs = append(outs, fmt.Sprintf("exit-ok=%v %s", err == nil, truncS(string(out), 80)))
				ents, _ := os.ReadDir(filepath.Join(ms.base, ".tmp"))
				residue = len(ents)
				if residue > 0 {
					break
				}
			}
			c := vCase{Prop: "C16", Kind: "cli-workarea", Class: "cli/authenticate-with-slow-local-upgrade", Nontrivial: true,
				Human: map[string]interface{}{"runs": outs, "files_left_in_tmp": residue}}
			if residue > 0 {
				c.Violation = fmt.Sprintf("after a completed `authenticate` command (local upgrades on, default parameter set slower than the command's 100 ms wait) "+
					"%d file(s) are left in the work area .tmp", residue)
			}
			em.emit(c)
			ms.cleanup()
		}
	}
	em.emit(vCase{Prop: "C16", Kind: "stats", Class: "stats", Human: vStats})
}

func contains(s, sub string) bool {
	for i := 0; i+len(sub) <= len(s); i++ {
		if s[i:i+len(sub)] == sub {
			return true
		}
	}
	return false
}
