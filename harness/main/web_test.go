// Shared pieces for the drivers that run the web handlers and the agent's
// Store interface in-process: scratch store, snapshots, KDF table.
package main

import (
	"bytes"
	"crypto/hmac"
	"crypto/sha256"
	"encoding/base64"
	"fmt"
	"net/http"
	"os"
	"path/filepath"
	"sort"
	"strconv"
	"strings"

	"golang.org/x/crypto/argon2"
	"golang.org/x/crypto/scrypt"
	"reflect"
	"time"
)

type mParam struct {
	ID      uint
	Scrypt  bool
	Key     []byte
	Cost    uint
	Time    uint32
	Memory  uint32
	Threads uint8
	Length  uint32
}

func (p mParam) coq() string {
	if p.Scrypt {
		return fmt.Sprintf("(HScrypt %s %d 8%%Z 1%%Z)", cH(p.Key), p.Cost)
	}
	return fmt.Sprintf("(HArgon %d %d %d %d)", p.Time, p.Memory, p.Threads, p.Length)
}
func (p mParam) fmtID() string {
	if p.Scrypt {
		return "hmac_sha256_scrypt"
	}
	return "argon2id"
}
func (p mParam) kdf(salt, pw []byte) []byte {
	if p.Scrypt {
		k, err := scrypt.Key(pw, salt, 1<<p.Cost, 8, 1, 32)
		if err != nil {
			return nil
		}
		m := hmac.New(sha256.New, p.Key)
		m.Write(k)
		return m.Sum(nil)
	}
	return argon2.IDKey(pw, salt, p.Time, p.Memory, p.Threads, p.Length)
}

type mStore struct {
	root, base, cfgfile string
	params              []mParam
	def                 uint
	kdfTab              map[string]string
}

func mYaml(base string, def uint, ps []mParam) string {
	var b strings.Builder
	fmt.Fprintf(&b, "basedir: %q\ndefault: %d\nparams:\n", base, def)
	for _, p := range ps {
		fmt.Fprintf(&b, "  - id: %d\n", p.ID)
		if p.Scrypt {
			fmt.Fprintf(&b, "    scryptauth:\n      hmackey: %q\n      cost: %d\n", base64.StdEncoding.EncodeToString(p.Key), p.Cost)
		} else {
			fmt.Fprintf(&b, "    argon2id:\n      time: %d\n      memory: %d\n      threads: %d\n      length: %d\n", p.Time, p.Memory, p.Threads, p.Length)
		}
	}
	return b.String()
}

func mNewStore(tag string, r *vRng, def uint) *mStore {
	root, err := os.MkdirTemp("", "verif-"+tag+"-")
	if err != nil {
		panic(err)
	}
	ms := &mStore{root: root, base: filepath.Join(root, "base"), cfgfile: filepath.Join(root, "store.yaml"), def: def, kdfTab: map[string]string{}}
	os.Mkdir(ms.base, 0700)
	ms.params = []mParam{{ID: 1, Time: 1, Memory: 8, Threads: 1, Length: 32}, {ID: 2, Scrypt: true, Key: r.bytes(32), Cost: 1}, {ID: 3, Time: 1, Memory: 13, Threads: 1, Length: 16}}
	ms.writeCfg()
	return ms
}

func (ms *mStore) writeCfg() {
	os.WriteFile(ms.cfgfile, []byte(mYaml(ms.base, ms.def, ms.params)), 0600)
}

func (ms *mStore) param(id uint) (mParam, bool) {
	for _, p := range ms.params {
		if p.ID == id {
			return p, true
		}
	}
	return mParam{}, false
}

func (ms *mStore) cfgTerm() string {
	var xs []string
	for _, p := range ms.params {
		xs = append(xs, fmt.Sprintf("(%d, %s)", p.ID, p.coq()))
	}
	return fmt.Sprintf("{| params := %s; default := %d |}", cList(xs), ms.def)
}

func (ms *mStore) addKdf(p mParam, salt, pw []byte) {
	key := p.coq() + "|" + vHex(salt) + "|" + vHex(pw)
	if _, ok := ms.kdfTab[key]; ok {
		return
	}
	d := p.kdf(salt, pw)
	out := "None"
	if d != nil {
		out = "(Some " + cH(d) + ")"
	}
	ms.kdfTab[key] = fmt.Sprintf("(%s, %s, %s, %s)", p.coq(), cH(salt), cH(pw), out)
}

func (ms *mStore) tablesTerm() string {
	var keys []string
	for k := range ms.kdfTab {
		keys = append(keys, k)
	}
	sort.Strings(keys)
	var tab []string
	for _, k := range keys {
		tab = append(tab, ms.kdfTab[k])
	}
	return fmt.Sprintf("{| t_fails := []; t_kdf := %s; t_sha := []; t_known := [] |}", cList(tab))
}

// independent writer
func (ms *mStore) plant(user string, admin bool, pid uint, ts int64, salt, pw []byte, tail string) {
	p, _ := ms.param(pid)
	d := p.kdf(salt, pw)
	line := p.fmtID() + ":" + strconv.FormatInt(ts, 10) + ":" + strconv.FormatUint(uint64(pid), 10) + ":" +
		base64.URLEncoding.EncodeToString(salt) + ":" + base64.URLEncoding.EncodeToString(d) + "\n" + tail
	ext := ".user"
	if admin {
		ext = ".admin"
	}
	os.WriteFile(filepath.Join(ms.base, user+ext), []byte(line), 0600)
	ms.addKdf(p, salt, pw)
}

func (ms *mStore) snapshotTerm() string {
	ents, _ := os.ReadDir(ms.base)
	var names []string
	for _, e := range ents {
		names = append(names, e.Name())
	}
	sort.Strings(names)
	var xs []string
	for _, n := range names {
		p := filepath.Join(ms.base, n)
		st, err := os.Lstat(p)
		if err != nil {
			continue
		}
		if st.IsDir() {
			var kids []string
			sub, _ := os.ReadDir(p)
			for _, k := range sub {
				c, _ := os.ReadFile(filepath.Join(p, k.Name()))
				kids = append(kids, "("+cS(k.Name())+", "+cH(c)+")")
			}
			xs = append(xs, "("+cS(n)+", Dir "+cList(kids)+")")
		} else {
			c, _ := os.ReadFile(p)
			xs = append(xs, "("+cS(n)+", File "+cH(c)+")")
		}
	}
	return cList(xs)
}

func (ms *mStore) dirOrder() string {
	f, err := os.Open(ms.base)
	if err != nil {
		return "[]"
	}
	defer f.Close()
	names, _ := f.Readdirnames(0)
	var xs []string
	for _, n := range names {
		xs = append(xs, cS(n))
	}
	return cList(xs)
}

// pre-compute the KDF values an authentication of (u, pw) may need
func (ms *mStore) prepAuth(u string, pw []byte) {
	for _, ext := range []string{".admin", ".user"} {
		c, err := os.ReadFile(filepath.Join(ms.base, u) + ext)
		if err != nil {
			continue
		}
		line := c
		if i := bytes.IndexByte(c, '\n'); i >= 0 {
			line = c[:i+1]
		}
		parts := strings.SplitN(string(line), ":", 4)
		if len(parts) != 4 {
			continue
		}
		id, err := strconv.ParseUint(parts[2], 10, 64)
		if err != nil {
			continue
		}
		p, ok := ms.param(uint(id))
		if !ok {
			continue
		}
		hp := strings.Split(parts[3], ":")
		if len(hp) != 2 {
			continue
		}
		salt, err := base64.URLEncoding.DecodeString(hp[0])
		if err != nil {
			continue
		}
		ms.addKdf(p, salt, pw)
	}
}

// after a write: ts and salt of the user's record, digest recomputed
func (ms *mStore) readBack(u string, pw []byte) (int64, []byte) {
	for _, ext := range []string{".admin", ".user"} {
		c, err := os.ReadFile(filepath.Join(ms.base, u) + ext)
		if err != nil {
			continue
		}
		line := c
		if i := bytes.IndexByte(c, '\n'); i >= 0 {
			line = c[:i]
		}
		parts := strings.Split(string(line), ":")
		if len(parts) != 5 {
			return 0, nil
		}
		ts, _ := strconv.ParseInt(parts[1], 10, 64)
		pid, _ := strconv.ParseUint(parts[2], 10, 64)
		salt, _ := base64.URLEncoding.DecodeString(parts[3])
		if p, ok := ms.param(uint(pid)); ok {
			ms.addKdf(p, salt, pw)
		}
		return ts, salt
	}
	return 0, nil
}

func (ms *mStore) cleanup() { os.RemoveAll(ms.root) }

func statusClass(st int) string {
	return strconv.Itoa(st)
}

var _ = http.StatusOK

// vAgentIdle waits until the agent has nothing queued and is not in the middle of a request:
// every channel-typed field of the agent's store object is empty (read by reflection, whatever
// the fields are called), then one round trip through the dispatcher (rendezvous), then empty
// again - twice in a row. Returns false when that does not happen within max (the caller then
// falls back to its own time bound). Machine load stretches hashing times; a fixed sleep does
// not tell "still busy" from "idle".
func vAgentIdle(st interface{}, rendezvous func(), max time.Duration) bool {
	queued := func() int {
		n := 0
		rv := reflect.ValueOf(st)
		for rv.Kind() == reflect.Ptr || rv.Kind() == reflect.Interface {
			if rv.IsNil() {
				return 0
			}
			rv = rv.Elem()
		}
		if rv.Kind() != reflect.Struct {
			return 0
		}
		for i := 0; i < rv.NumField(); i++ {
			f := rv.Field(i)
			if f.Kind() == reflect.Chan && !f.IsNil() {
				n += f.Len()
			}
		}
		return n
	}
	deadline := time.Now().Add(max)
	calm := 0
	for time.Now().Before(deadline) {
		if queued() == 0 {
			rendezvous()
			if queued() == 0 {
				calm++
				if calm >= 2 {
					return true
				}
				continue
			}
		}
		calm = 0
		time.Sleep(2 * time.Millisecond)
	}
	return false
}

// vFieldCap: capacity of the channel found by following the named fields from obj (-1 when a field of
// that name does not exist or is not a channel) - read by reflection so that the drivers keep compiling
// when an internal field is renamed or replaced.
func vFieldCap(obj interface{}, path ...string) int {
	v := reflect.ValueOf(obj)
	for _, p := range path {
		for v.Kind() == reflect.Ptr || v.Kind() == reflect.Interface {
			if v.IsNil() {
				return -1
			}
			v = v.Elem()
		}
		if v.Kind() != reflect.Struct {
			return -1
		}
		v = v.FieldByName(p)
		if !v.IsValid() {
			return -1
		}
	}
	if v.Kind() != reflect.Chan {
		return -1
	}
	return v.Cap()
}

// vAnnounceStore tells a hooks caller about a new store directory the way the agent's reload does:
// through its NewStore channel if it has one, through a SetStore-like method otherwise.
func vAnnounceStore(h interface{}, dir string) bool {
	v := reflect.ValueOf(h)
	if f := v.Elem().FieldByName("NewStore"); f.IsValid() && f.Kind() == reflect.Chan && f.CanInterface() {
		f.Send(reflect.ValueOf(dir))
		return true
	}
	for _, m := range []string{"SetStore", "NewStoreDir", "SetStoreDir"} {
		if mv := v.MethodByName(m); mv.IsValid() && mv.Type().NumIn() == 1 && mv.Type().In(0).Kind() == reflect.String {
			mv.Call([]reflect.Value{reflect.ValueOf(dir)})
			return true
		}
	}
	return false
}
