// C03 (agent level): a name outside the user-name grammar never authenticates through any frontend -
// whatever the OTHER fields of the request say (saslauthd service and realm, LDAP bind-name decorations,
// basic-auth and JSON encodings).  Cases are FeCase terms judged by Run/C04.
package main

import (
	"encoding/json"
	"fmt"
	"net"
	"net/http"
	"net/http/httptest"
	"os"
	"path/filepath"
	"strings"
	"time"
	"unicode/utf8"

	"github.com/glauth/ldap"
	"github.com/whawty/auth/sasl"
	lib "github.com/whawty/auth/store"
)

func runC03Frontends(em *vEmitter, r *vRng) {
	ms := mNewStore("c03f", r, 1)
	defer ms.cleanup()
	ms.plant("root", true, 1, 1600000000, r.bytes(16), []byte("rootpw"), "")
	ms.plant("alice", false, 1, 1600000001, r.bytes(16), []byte("alicepw"), "")
	ms.plant("bob", false, 2, 1600000002, r.bytes(32), []byte("bobpw"), "")
	// a sibling store next to the base directory
	sib := filepath.Join(ms.root, "sibling")
	ms2 := *ms
	ms2.base = sib
	os.Mkdir(sib, 0700)
	ms2.plant("eve", true, 1, 1600000003, r.bytes(16), []byte("alicepw"), "")
	st, err := NewStore(ms.cfgfile, "", "", "", "")
	if err != nil {
		panic(err)
	}
	api := st.GetInterface()
	mux, _ := newWebHandler(api)
	sock := filepath.Join(ms.root, "sasl.sock")
	go runSaslAuthSocket(sock, api)
	for i := 0; i < 200; i++ {
		if c, err := net.Dial("unix", sock); err == nil {
			c.Close()
			break
		}
		time.Sleep(10 * time.Millisecond)
	}
	ln, err := net.Listen("tcp", "127.0.0.1:0")
	if err != nil {
		panic(err)
	}
	lsrv := ldap.NewServer()
	lsrv.BindFunc("", ldapHandler{store: api})
	go lsrv.Serve(ln)
	defer ln.Close()
	direct, _ := lib.NewDirFromConfig(ms.cfgfile)

	tails := []string{"../sibling/eve", "/etc/passwd", " ", "example.org\n", "x y", "\x01", "../alice", "a/b", "example.org/../../sibling/eve", "-"}
	var names []string
	for _, u := range []string{"alice", "root"} {
		for _, t := range tails {
			names = append(names, u+"@"+t, u+"/"+t, u+" "+t)
		}
	}
	names = append(names, "../sibling/eve", "sibling/eve", "alice\n", " alice", "alice ", "-alice", ".alice", "_alice", "@alice", "alice\x00", "al ice", "ali\tce")
	pws := map[string]string{"alice": "alicepw", "root": "rootpw"}
	record := func(fe, u, p string, observed bool, class string, extra map[string]interface{}) {
		name := u
		if fe == "FLdap" {
			name = strings.SplitN(u, "@", 2)[0]
		}
		sok, _, _, _, serr := direct.Authenticate(name, p)
		h := map[string]interface{}{"frontend": fe, "user": u, "password": p, "store_ok": sok, "store_err": serr != nil, "accepted": observed}
		for k, v := range extra {
			h[k] = v
		}
		em.emit(vCase{Prop: "C03", Kind: "frontend", Class: class + fe, Nontrivial: true,
			Coq:   fmt.Sprintf("FeCase %s %s %s %s %s %s", fe, cS(u), cS(p), cB(sok), cB(serr != nil), cB(observed)),
			Human: h})
	}
	for _, nm := range names {
		pw := "alicepw"
		for k, v := range pws {
			if strings.HasPrefix(nm, k) {
				pw = v
			}
		}
		// saslauthd socket: every combination of service / realm a client may choose - in particular a realm
		// equal to what follows the '@' (or any other separator) of the login
		realms := []string{"", "example.org"}
		for _, sep := range []string{"@", "/", " "} {
			if i := strings.Index(nm, sep); i >= 0 {
				realms = append(realms, nm[i+1:], nm[i:])
			}
		}
		for _, realm := range realms {
			for _, svc := range []string{"svc", ""} {
				if len(nm) == 0 || len(nm) > 256 || len(realm) > 256 {
					continue
				}
				ok, _, err := sasl.NewClient(sock).Auth(nm, pw, svc, realm)
				record("FSasl", nm, pw, ok && err == nil, "invalid-name/", map[string]interface{}{"service": svc, "realm": realm})
			}
		}
		// basic-auth
		req := httptest.NewRequest("GET", "/basic-auth", nil)
		req.SetBasicAuth(nm, pw)
		rec := httptest.NewRecorder()
		mux.ServeHTTP(rec, req)
		record("FBasic", nm, pw, rec.Code == http.StatusOK, "invalid-name/", nil)
		// JSON API
		if utf8.ValidString(nm) {
			b, _ := json.Marshal(map[string]string{"username": nm, "password": pw})
			rec := httptest.NewRecorder()
			mux.ServeHTTP(rec, httptest.NewRequest("POST", "/api/authenticate", strings.NewReader(string(b))))
			record("FApi", nm, pw, rec.Code == http.StatusOK, "invalid-name/", nil)
		}
		// LDAP simple bind (the bind name up to the first '@' is looked up)
		if conn, err := ldap.DialTimeout("tcp", ln.Addr().String(), 2*time.Second); err == nil {
			err = conn.Bind(nm, pw)
			conn.Close()
			record("FLdap", nm, pw, err == nil, "invalid-name/", nil)
		}
	}
	em.emit(vCase{Prop: "C03", Kind: "stats", Class: "stats", Human: vStats})
}
