// C12: hash upgrades through the agent - local, off, remote.
package main

import (
	"fmt"
	"net/http"
	"net/http/httptest"
	"os"
	"path/filepath"
	"sort"
	"strings"
	"sync"
	"sync/atomic"
	"syscall"
	"time"

	zxcvbn "github.com/nbutton23/zxcvbn-go"
)

func runC12(em *vEmitter, r *vRng) {
	nseq := 40
	if vThorough() {
		nseq = 600
	}
	users := []string{"alice", "bob", "carol", "dave", "erin"}
	for si := 0; si < nseq; si++ {
		mode := []string{"local", "local", "", "local"}[si%4]
		def := uint(1 + r.intn(3))
		ms := mNewStore("c12", r, def)
		pw := map[string]string{}
		// every eighth sequence: the agent runs with a password policy (an upgrade is an update with the
		// login password and goes through the policy); the estimator is called by the harness itself
		withPolicy := mode == "local" && si%8 == 4
		const polMin = 3
		refused := map[[2]string]bool{}
		rate := func(p, u string) {
			if withPolicy && zxcvbn.PasswordStrength(p, []string{u, "whawty"}).Score < polMin {
				refused[[2]string{p, u}] = true
			}
		}
		for i, u := range users {
			pid := uint(1 + r.intn(3))
			sl := 16
			if pid == 2 {
				sl = 32
			}
			pw[u] = fmt.Sprintf("pw-%s-%d", u, r.intn(100))
			if withPolicy && i%2 == 0 {
				// strong enough for the policy, while the user NAME rated as a password is not
				pw[u] = fmt.Sprintf("Xq7#%s-vT9!m2L%d-kRz", strings.ToUpper(u[:1])+u[3:], r.intn(1000))
			}
			tail := []string{"", "totp: QUJD\n", "u2f: x\ntotp: y", "\x00\xff\n"}[r.intn(4)]
			if si%5 == 2 && i == 1 {
				// more auxiliary data than one 4 KiB buffer holds, in distinguishable lines
				var b strings.Builder
				for k := 0; b.Len() < 4200+r.intn(5000); k++ {
					fmt.Fprintf(&b, "key%04d: %s\n", k, strings.Repeat(string(rune('a'+k%26)), 40))
				}
				tail = b.String()
				if r.intn(2) == 0 {
					tail = tail[:len(tail)-1]
				}
			}
			ms.plant(u, i == 0, pid, 1600000000+int64(i), r.bytes(sl), []byte(pw[u]), tail)
		}
		if si%5 == 3 {
			// what a writer killed long ago may have left in the work area, under names an implementation
			// might derive from the hash file's name, longer than any record an upgrade writes
			os.Mkdir(filepath.Join(ms.base, ".tmp"), 0700)
			stale := strings.Repeat("stale-left-over: 0123456789abcdef0123456789abcdef\n", 12)
			for _, u := range users {
				for _, nm := range []string{u + ".user", u + ".admin", u, u + ".tmp"} {
					os.WriteFile(filepath.Join(ms.base, ".tmp", nm), []byte(stale), 0600)
				}
			}
		}
		polType, polCond := "", ""
		if withPolicy {
			polType, polCond = "zxcvbn", fmt.Sprintf("score >= %d", polMin)
		}
		st, err := NewStore(ms.cfgfile, mode, polType, polCond, "")
		if err != nil {
			panic(err)
		}
		api := st.GetInterface()
		seqUsers := users
		burst := 0
		if mode == "local" && si%4 == 3 {
			// a login burst of many upgradeable users first (more than the upgrade queue holds), then
			// quiescence: afterwards the agent is idle again and every login must upgrade as usual
			burst = 150
			var bu []string
			for i := 0; i < burst; i++ {
				u := fmt.Sprintf("burst%03d", i)
				pid := def%3 + 1
				sl := 16
				if pid == 2 {
					sl = 32
				}
				pw[u] = "pw-" + u
				ms.plant(u, false, pid, 1600000100+int64(i), r.bytes(sl), []byte(pw[u]), "")
				bu = append(bu, u)
			}
			var wg sync.WaitGroup
			for _, u := range bu {
				wg.Add(1)
				go func(u string) { defer wg.Done(); api.Authenticate(u, pw[u]) }(u)
			}
			wg.Wait()
			// wait until the agent is idle (nothing queued, dispatcher free) and nothing changes any more
			vAgentIdle(st, func() { api.List() }, 60*time.Second)
			prev := ""
			for i := 0; i < 100; i++ {
				time.Sleep(100 * time.Millisecond)
				cur := ms.snapshotTerm()
				if cur == prev {
					break
				}
				prev = cur
			}
			// the users the burst left behind come first
			var left []string
			for _, u := range bu {
				if firstLinePid(userFile(ms.base, u)) != int(def) {
					left = append(left, u)
				}
			}
			vStats["burst/left-behind"] += len(left)
			if len(left) > 10 {
				left = left[:10]
			}
			seqUsers = append(append([]string{}, left...), users...)
		}
		initDir := ms.snapshotTerm()
		last := initDir
		var steps []string
		var human []string
		n := 6 + r.intn(8)
		if burst > 0 {
			n = 14
		}
		emitSeq := func(class string) {
			m := "ULocal"
			if mode == "" {
				m = "UOff"
			}
			if withPolicy {
				var rf []string
				for k := range refused {
					rf = append(rf, fmt.Sprintf("(%s, %s)", cS(k[0]), cS(k[1])))
				}
				sort.Strings(rf)
				em.emit(vCase{Prop: "C12", Kind: "upgrade-seq", Class: class + "/policy", Nontrivial: true,
					Coq:   fmt.Sprintf("UpgSeqP %s %s %s %s %s %s", ms.cfgTerm(), ms.tablesTerm(), m, cList(rf), initDir, cList(steps)),
					Human: map[string]interface{}{"default": def, "mode": mode, "logins": human, "policy": polCond, "refused_pairs": len(rf)}})
				return
			}
			em.emit(vCase{Prop: "C12", Kind: "upgrade-seq", Class: class, Nontrivial: true,
				Coq:   fmt.Sprintf("UpgSeq %s %s %s %s %s", ms.cfgTerm(), ms.tablesTerm(), m, initDir, cList(steps)),
				Human: map[string]interface{}{"default": def, "mode": mode, "logins": human}})
		}
		reloadAt := -1
		if mode == "local" && si%4 == 1 && burst == 0 {
			reloadAt = n / 2
		}
		for k := 0; k < n; k++ {
			if k == reloadAt {
				// the operator changes nothing but the default parameter set and reloads: from here on
				// "upgradeable" and the target of upgrades follow the new default
				emitSeq("sequence/local/before-reload")
				def = def%3 + 1
				ms.def = def
				ms.writeCfg()
				syscall.Kill(os.Getpid(), syscall.SIGHUP)
				time.Sleep(80 * time.Millisecond)
				api.List()
				initDir = ms.snapshotTerm()
				last = initDir
				steps, human = nil, nil
			}
			u := seqUsers[r.intn(len(seqUsers))]
			if burst > 0 && k < len(seqUsers)-len(users) {
				u = seqUsers[k]
			}
			p := pw[u]
			if r.intn(3) == 0 {
				p = []string{"wrong", p + "x", strings.ToUpper(p), ""}[r.intn(4)]
			}
			ms.prepAuth(u, []byte(p))
			rate(p, u)
			var ok, adm bool
			var lc time.Time
			if k%2 == 0 {
				ok, adm, lc, _ = api.Authenticate(u, p)
			} else {
				// through the saslauthd callback
				ok, _, _ = callback(u, p, "svc", "", "test", api)
				if ok {
					_, adm, lc, _ = func() (bool, bool, time.Time, error) {
						// the callback does not report the flags: read them with a second, identical request
						return api.Authenticate(u, p)
					}()
				}
			}
			// wait for a queued upgrade to be carried out: first until the agent is idle again (an
			// upgrade request is queued before the login is answered), then the old time bound
			vAgentIdle(st, func() { api.List() }, 30*time.Second)
			deadline := time.Now().Add(300 * time.Millisecond)
			for time.Now().Before(deadline) {
				if mode == "" || !ok || firstLinePid(userFile(ms.base, u)) == int(def) {
					break
				}
				time.Sleep(5 * time.Millisecond)
			}
			time.Sleep(10 * time.Millisecond)
			snap := ms.snapshotTerm()
			snapTerm := "SnapSame"
			ts, salt := int64(0), []byte(nil)
			if snap != last {
				snapTerm = "(Snap " + snap + ")"
				last = snap
				ts, salt = ms.readBack(u, []byte(p))
			}
			obs := "(OAuth false false false 0%Z)"
			if ok {
				obs = fmt.Sprintf("(OAuth true %s false %s)", cB(adm), cZ(lc.Unix()))
			}
			steps = append(steps, fmt.Sprintf("(%s, %s, {| o_ts := %s; o_salt := %s; o_tmp := []; o_order := [] |}, %s, %s, %s)",
				cS(u), cS(p), cZ(ts), cH(salt), obs, snapTerm, cB(k%2 == 1)))
			human = append(human, fmt.Sprintf("auth(%s,%q) ok=%v changed=%v", u, p, ok, snapTerm != "SnapSame"))
			vStats[fmt.Sprintf("login/%s/ok=%v/rewritten=%v", map[string]string{"": "off", "local": "local"}[mode], ok, snapTerm != "SnapSame")]++
		}
		cls := "sequence/" + map[string]string{"": "off", "local": "local"}[mode]
		if reloadAt >= 0 {
			cls += "/after-reload"
		}
		emitSeq(cls)
		ms.cleanup()
	}
	// remote mode: the slave's store is never touched, the master's record is upgraded
	nrem := 6
	if vThorough() {
		nrem = 60
	}
	for k := 0; k < nrem; k++ {
		master := mNewStore("c12m", r, 2)
		slave := mNewStore("c12s", r, 2)
		slave.params = master.params
		slave.writeCfg()
		salt := r.bytes(16)
		master.plant("root", true, 2, 1600000000, r.bytes(32), []byte("rootpw"), "")
		master.plant("alice", false, 1, 1600000001, salt, []byte("alicepw"), "totp: QQ==\n")
		slave.plant("root", true, 2, 1600000000, r.bytes(32), []byte("rootpw"), "")
		slave.plant("alice", false, 1, 1600000001, salt, []byte("alicepw"), "totp: QQ==\n")
		mst, err := NewStore(master.cfgfile, "local", "", "", "")
		if err != nil {
			panic(err)
		}
		mux, _ := newWebHandler(mst.GetInterface())
		srv := httptest.NewServer(mux)
		sst, err := NewStore(slave.cfgfile, srv.URL+"/api/update", "", "", "")
		if err != nil {
			panic(err)
		}
		slaveBefore := slave.snapshotTerm()
		right := k%3 != 0
		p := "alicepw"
		if !right {
			p = "nope"
		}
		ok, _, _, _ := sst.GetInterface().Authenticate("alice", p)
		// a right password: the master must end up with the upgraded record (generous bound, the loop
		// ends as soon as it has); a wrong one: nothing may happen within the old bound
		wait := 800 * time.Millisecond
		if right {
			wait = 15 * time.Second
		}
		deadline := time.Now().Add(wait)
		for time.Now().Before(deadline) && firstLinePid(userFile(master.base, "alice")) != 2 {
			time.Sleep(10 * time.Millisecond)
		}
		vAgentIdle(sst, func() { sst.GetInterface().List() }, 10*time.Second)
		vAgentIdle(mst, func() { mst.GetInterface().List() }, 10*time.Second)
		time.Sleep(20 * time.Millisecond)
		srv.Close()
		slaveAfter := slave.snapshotTerm()
		mpid := firstLinePid(userFile(master.base, "alice"))
		mok, _, _, _ := mst.GetInterface().Authenticate("alice", "alicepw")
		tailOK := strings.HasSuffix(readFileS(userFile(master.base, "alice")), "\ntotp: QQ==\n")
		viol := ""
		if slaveBefore != slaveAfter {
			viol = "a login on the slave (remote upgrades) modified the slave's own store"
		} else if right && (mpid != 2 || !mok || !tailOK) {
			viol = fmt.Sprintf("remote upgrade after a successful login: master record pid=%d auth=%v aux-preserved=%v", mpid, mok, tailOK)
		} else if !right && mpid != 1 {
			viol = "a failed login on the slave rewrote the master's record"
		}
		c := vCase{Prop: "C12", Kind: "remote", Class: "remote/" + map[bool]string{true: "right-password", false: "wrong-password"}[right], Nontrivial: true,
			Coq:   fmt.Sprintf("Remote %s %s %d %s", cB(right), cB(slaveBefore == slaveAfter), mpid, cB(mok && tailOK)),
			Human: map[string]interface{}{"login_ok": ok, "master_pid": mpid, "slave_unchanged": slaveBefore == slaveAfter}}
		if viol != "" {
			c.Violation = viol
		}
		em.emit(c)
		master.cleanup()
		slave.cleanup()
	}
	// remote mode across an outage of the upgrade master: while it answers 503 (or is down) nothing is
	// upgraded - allowed; once it is back and the agent is idle, a successful login with an upgradeable
	// hash is upgraded on the master again, however many attempts failed in between
	for rep := 0; rep < 1+map[bool]int{true: 3, false: 0}[vThorough()]; rep++ {
		master := mNewStore("c12om", r, 2)
		slave := mNewStore("c12os", r, 2)
		slave.params = master.params
		slave.writeCfg()
		names := []string{"root"}
		for i := 0; i < 14; i++ {
			names = append(names, fmt.Sprintf("u%02d", i))
		}
		for i, u := range names {
			pid := uint(1)
			if i == 0 {
				pid = 2
			}
			salt := r.bytes(16)
			if pid == 2 {
				salt = r.bytes(32)
			}
			master.plant(u, i == 0, pid, 1600000000, salt, []byte("pw-"+u), "")
			slave.plant(u, i == 0, pid, 1600000000, salt, []byte("pw-"+u), "")
		}
		mst, err := NewStore(master.cfgfile, "local", "", "", "")
		if err != nil {
			panic(err)
		}
		mux, _ := newWebHandler(mst.GetInterface())
		var healthy atomic.Bool
		healthy.Store(true)
		srv := httptest.NewServer(http.HandlerFunc(func(w http.ResponseWriter, q *http.Request) {
			if !healthy.Load() {
				http.Error(w, "maintenance", http.StatusServiceUnavailable)
				return
			}
			mux.ServeHTTP(w, q)
		}))
		sst, err := NewStore(slave.cfgfile, srv.URL+"/api/update", "", "", "")
		if err != nil {
			panic(err)
		}
		sapi := sst.GetInterface()
		slaveBefore := slave.snapshotTerm()
		waitPid := func(u string, want int, d time.Duration) bool {
			dl := time.Now().Add(d)
			for time.Now().Before(dl) {
				if firstLinePid(userFile(master.base, u)) == want {
					return true
				}
				time.Sleep(10 * time.Millisecond)
			}
			return false
		}
		sapi.Authenticate("u00", "pw-u00")
		firstOK := waitPid("u00", 2, 15*time.Second)
		healthy.Store(false)
		for i := 1; i <= 12; i++ {
			u := fmt.Sprintf("u%02d", i)
			sapi.Authenticate(u, "wrong")
			sapi.Authenticate(u, "pw-"+u)
			time.Sleep(15 * time.Millisecond)
		}
		time.Sleep(300 * time.Millisecond)
		healthy.Store(true)
		vAgentIdle(sst, func() { sapi.List() }, 10*time.Second)
		ok, _, _, _ := sapi.Authenticate("u13", "pw-u13")
		upgraded := waitPid("u13", 2, 15*time.Second)
		vAgentIdle(mst, func() { mst.GetInterface().List() }, 10*time.Second)
		srv.Close()
		mok, _, _, _ := mst.GetInterface().Authenticate("u13", "pw-u13")
		slaveSame := slaveBefore == slave.snapshotTerm()
		mpid := firstLinePid(userFile(master.base, "u13"))
		c := vCase{Prop: "C12", Kind: "remote", Class: "remote/after-master-outage", Nontrivial: true,
			Coq: fmt.Sprintf("Remote true %s %d %s", cB(slaveSame), mpid, cB(mok)),
			Human: map[string]interface{}{"login_ok": ok, "upgrade_before_the_outage": firstOK, "failed_upgrade_calls_during_the_outage": 12,
				"master_pid_after": mpid, "upgraded_after_the_outage": upgraded, "slave_unchanged": slaveSame}}
		if !firstOK {
			c.Violation = "remote upgrade with a healthy master did not happen (before the outage)"
		}
		em.emit(c)
		master.cleanup()
		slave.cleanup()
	}
	em.emit(vCase{Prop: "C12", Kind: "stats", Class: "stats", Human: vStats})
}

func userFile(base, u string) string {
	if _, err := os.Stat(filepath.Join(base, u+".admin")); err == nil {
		return filepath.Join(base, u+".admin")
	}
	return filepath.Join(base, u+".user")
}

func readFileS(p string) string { b, _ := os.ReadFile(p); return string(b) }
