// C07: session tokens - every kind of presented string against factories
// whose sealed (nonce, ciphertext, plaintext) triples the driver knows.
package main

import (
	"encoding/base64"
	"fmt"
	"math/big"
	"net/http"
	"strings"
	"sync"
	"time"
)

type c07Entry struct {
	nonce, ct []byte
	pt        string
	text      string
}

type c07Fac struct {
	f    *webSessionFactory
	life time.Duration
	log  []c07Entry
}

func (x *c07Fac) logTerm() string {
	var xs []string
	for _, e := range x.log {
		xs = append(xs, fmt.Sprintf("{| s_nonce := %s; s_ct := %s; s_pt := %s |}", cH(e.nonce), cH(e.ct), cS(e.pt)))
	}
	return cList(xs)
}

// Generate through the public path; the plaintext is reconstructed from the call window
func (x *c07Fac) issue(user string, admin bool) (c07Entry, bool) {
	for try := 0; try < 5; try++ {
		before := time.Now().Unix()
		st, _, sess := x.f.Generate(user, admin)
		after := time.Now().Unix()
		if st != http.StatusOK || before != after {
			continue
		}
		parts := strings.SplitN(sess, ":", 2)
		n, _ := base64.URLEncoding.DecodeString(parts[0])
		c, _ := base64.URLEncoding.DecodeString(parts[1])
		e := c07Entry{n, c, fmt.Sprintf("%s:%t:%d", user, admin, before), sess}
		x.log = append(x.log, e)
		return e, true
	}
	return c07Entry{}, false
}

// seal a chosen plaintext with the factory's own AEAD
func (x *c07Fac) seal(pt string) c07Entry {
	_, _, n, c := x.f.sealToken(pt)
	e := c07Entry{n, c, pt, base64.URLEncoding.EncodeToString(n) + ":" + base64.URLEncoding.EncodeToString(c)}
	x.log = append(x.log, e)
	return e
}

type c07Pres struct {
	text  string
	class string
}

func runC07(em *vEmitter, r *vRng) {
	thorough := vThorough()
	life := 1000 * time.Second
	mk := func() *c07Fac {
		f, err := NewWebSessionFactory(life)
		if err != nil {
			panic(err)
		}
		return &c07Fac{f: f, life: life}
	}
	A, B := mk(), mk()
	users := []string{"alice", "bob", "a:b", "x:true", ":", "", "ünï", "carol@example.org", strings.Repeat("n", 300)}
	var valid []c07Entry
	for i, u := range users {
		if e, ok := A.issue(u, i%2 == 0); ok {
			valid = append(valid, e)
		}
	}
	var other []c07Entry
	for _, u := range []string{"alice", "root"} {
		if e, ok := B.issue(u, true); ok {
			other = append(other, e)
		}
	}
	now := time.Now().Unix()
	lifeS := int64(life / time.Second)
	chosen := []string{
		fmt.Sprintf("alice:true:%d", now-lifeS-30), fmt.Sprintf("alice:true:%d", now-lifeS+30), fmt.Sprintf("alice:true:%d", now+30),
		fmt.Sprintf("alice:false:%d", now-1), "alice:true:4611686018427387904", "alice:true:-4611686018427387904",
		"alice:true:9223372036854775807", "alice:true:9223372036854775808", "alice:true:-9223372036854775808",
		"alice:True:" + fmt.Sprint(now), "alice:1:" + fmt.Sprint(now), "alice:TRUE:" + fmt.Sprint(now), "alice:t:" + fmt.Sprint(now),
		"alice:true:abc", "alice:true:", "alice:true", "alice", "", "alice:true:" + fmt.Sprint(now) + ":extra", "alice:true:+" + fmt.Sprint(now),
		"alice:true: " + fmt.Sprint(now), ":true:" + fmt.Sprint(now), "al\nice:false:" + fmt.Sprint(now),
	}
	// timestamps whose distance from now, expressed in nanoseconds, wraps around 2^64 (or 2^63)
	// into the lifetime window: an age computed in a wrapping integer type would accept them
	for k := int64(1); k <= 15; k++ {
		wrap := new(big.Int).Div(new(big.Int).Mul(big.NewInt(k), new(big.Int).Lsh(big.NewInt(1), 64)), big.NewInt(1000000000)).Int64()
		half := new(big.Int).Div(new(big.Int).Mul(big.NewInt(k), new(big.Int).Lsh(big.NewInt(1), 63)), big.NewInt(1000000000)).Int64()
		for _, w := range []int64{wrap, half} {
			for _, d := range []int64{1, lifeS / 2, lifeS - 1} {
				chosen = append(chosen, fmt.Sprintf("alice:true:%d", now-w-d), fmt.Sprintf("alice:true:%d", now+w-d),
					fmt.Sprintf("alice:true:%d", now-w+d), fmt.Sprintf("alice:true:%d", now+w+d))
			}
		}
		chosen = append(chosen, fmt.Sprintf("alice:true:%d", now-k*(1<<55)-lifeS/2), fmt.Sprintf("alice:true:%d", now+k*(1<<55)-lifeS/2))
	}
	var sealedChosen []c07Entry
	for _, pt := range chosen {
		sealedChosen = append(sealedChosen, A.seal(pt))
	}

	var pres []c07Pres
	add := func(t, c string) { pres = append(pres, c07Pres{t, c}) }
	// tokens that expire between two presentations of the same string
	expiring := []c07Entry{A.seal(fmt.Sprintf("alice:true:%d", time.Now().Unix()-lifeS+4)), A.seal(fmt.Sprintf("bob:false:%d", time.Now().Unix()-lifeS+4))}
	for _, e := range expiring {
		add(e.text, "expiring/first-use")
		add(e.text, "expiring/first-use")
	}
	add("", "sleep")
	for _, e := range expiring {
		add(e.text, "expiring/after-expiry")
	}
	for _, e := range valid {
		add(e.text, "issued")
	}
	for _, e := range sealedChosen {
		add(e.text, "sealed-chosen-plaintext")
	}
	for _, e := range other {
		add(e.text, "other-instance")
	}
	// every single-character mutation of the text, every single-bit mutation of the decoded content
	subs := []byte{'A', 'B', '=', ':', '-', '_', '\n', '!', 0}
	ntok := 3
	if thorough {
		ntok = len(valid)
	}
	for _, e := range valid[:ntok] {
		for i := 0; i < len(e.text); i++ {
			for _, s := range subs {
				if e.text[i] == s {
					continue
				}
				if !thorough && r.intn(3) != 0 {
					continue
				}
				m := []byte(e.text)
				m[i] = s
				add(string(m), "text-char-mutated")
			}
		}
		raw := append(append([]byte{}, e.nonce...), e.ct...)
		for bit := 0; bit < len(raw)*8; bit++ {
			m := append([]byte{}, raw...)
			m[bit/8] ^= 1 << uint(bit%8)
			add(base64.URLEncoding.EncodeToString(m[:len(e.nonce)])+":"+base64.URLEncoding.EncodeToString(m[len(e.nonce):]), "content-bit-flipped")
		}
		// all truncations of the text
		for i := 0; i < len(e.text); i++ {
			add(e.text[:i], "text-prefix")
			if i > 0 {
				add(e.text[i:], "text-suffix")
			}
		}
		// truncated / extended decoded content
		add(base64.URLEncoding.EncodeToString(e.nonce)+":"+base64.URLEncoding.EncodeToString(e.ct[:len(e.ct)-1]), "ct-truncated")
		add(base64.URLEncoding.EncodeToString(e.nonce)+":"+base64.URLEncoding.EncodeToString(append(append([]byte{}, e.ct...), 0)), "ct-extended")
		add(base64.URLEncoding.EncodeToString(e.nonce[:11])+":"+base64.URLEncoding.EncodeToString(e.ct), "nonce-short")
		add(base64.URLEncoding.EncodeToString(append(append([]byte{}, e.nonce...), 0))+":"+base64.URLEncoding.EncodeToString(e.ct), "nonce-long")
		add(":"+base64.URLEncoding.EncodeToString(e.ct), "nonce-empty")
		// insertions: one character at every position; junk appended to / prepended before each field
		ins := []byte{'A', '=', '!', ' ', '\n', ':', 0, '~'}
		for i := 0; i <= len(e.text); i++ {
			for _, s := range ins {
				if !thorough && r.intn(2) != 0 {
					continue
				}
				add(e.text[:i]+string(s)+e.text[i:], "text-char-inserted")
			}
		}
		colon := strings.IndexByte(e.text, ':')
		for _, junk := range []string{"A", "AA", "AAA", "AAAA", "=", "==", "!", "!junk", " ", "~~~~", "%3A", "\x00", "A=", "AAAAAAAAAAAAAAAA"} {
			add(e.text[:colon]+junk+e.text[colon:], "nonce-text-extended")
			add(junk+e.text, "nonce-text-prefixed")
			add(e.text+junk, "ct-text-extended")
			add(e.text[:colon+1]+junk+e.text[colon+1:], "ct-text-prefixed")
		}
		add(e.text+"\n", "text-trailing-newline")
		add(e.text+":", "text-trailing-colon")
		add(strings.Replace(e.text, ":", "\r\n:", 1), "text-newline-inside")
	}
	// the same decoded bytes with the field boundary somewhere else: nonce||ciphertext of a valid token cut
	// at every other offset and encoded as two fields again - a different (nonce, ciphertext) pair
	for _, e := range valid {
		whole := append(append([]byte{}, e.nonce...), e.ct...)
		for cut := 0; cut <= len(whole); cut++ {
			if cut == len(e.nonce) {
				continue
			}
			if !thorough && cut > 16 && cut < len(whole)-4 && cut%5 != 0 {
				continue
			}
			add(base64.URLEncoding.EncodeToString(whole[:cut])+":"+base64.URLEncoding.EncodeToString(whole[cut:]), "boundary-moved")
		}
	}
	// all nonce / ciphertext splices between valid tokens (incl. the other instance)
	all := append(append([]c07Entry{}, valid...), other...)
	for i, a := range all {
		for j, b := range all {
			if i != j {
				add(base64.URLEncoding.EncodeToString(a.nonce)+":"+base64.URLEncoding.EncodeToString(b.ct), "splice")
			}
		}
	}
	for _, t := range []string{"", ":", "::", "AAAA:AAAA", "AAAAAAAAAAAAAAAA:AAAA", "AAAAAAAAAAAAAAAA:", "x", "a:b:c", "AAAA", strings.Repeat("A", 5000) + ":" + strings.Repeat("B", 5000)} {
		add(t, "garbage")
	}
	ng := 300
	if thorough {
		ng = 20000
	}
	for i := 0; i < ng; i++ {
		add(base64.URLEncoding.EncodeToString(r.bytes(12))+":"+base64.URLEncoding.EncodeToString(r.bytes(16+r.intn(40))), "random-wellformed")
		add(string(r.bytes(r.intn(40))), "random-bytes")
	}

	// nonce distinctness and instance binding over many issuances
	nIssue := 2000
	seen := map[string]bool{}
	nviol := ""
	C := mk()
	for i := 0; i < nIssue; i++ {
		e, ok := C.issue("u", false)
		if !ok {
			continue
		}
		if seen[string(e.nonce)] {
			nviol = "two issued tokens share the nonce " + vHex(e.nonce)
		}
		seen[string(e.nonce)] = true
		if len(e.nonce) != 12 {
			nviol = "nonce of unexpected size"
		}
	}

	// the same from many goroutines at once on one factory (every handler goroutine of a listener shares it)
	{
		var mu sync.Mutex
		var wg sync.WaitGroup
		per := 600
		if thorough {
			per = 6000
		}
		for g := 0; g < 16; g++ {
			wg.Add(1)
			go func(g int) {
				defer wg.Done()
				local := make([]string, 0, per)
				for i := 0; i < per; i++ {
					st, _, sess := C.f.Generate(fmt.Sprintf("u%d", g), g%2 == 0)
					if st != http.StatusOK {
						continue
					}
					local = append(local, strings.SplitN(sess, ":", 2)[0])
				}
				mu.Lock()
				defer mu.Unlock()
				for _, n := range local {
					raw, _ := base64.URLEncoding.DecodeString(n)
					if seen[string(raw)] && nviol == "" {
						nviol = "two tokens issued concurrently by one instance share the nonce " + vHex(raw)
					}
					seen[string(raw)] = true
				}
			}(g)
		}
		wg.Wait()
		nIssue += 16 * per
	}

	// present everything to factory A, in batches
	const batch = 400
	for start := 0; start < len(pres); start += batch {
		end := start + batch
		if end > len(pres) {
			end = len(pres)
		}
		var items []string
		viol := ""
		classes := map[string]int{}
		accepted := 0
		for _, p := range pres[start:end] {
			if p.class == "sleep" {
				time.Sleep(6 * time.Second)
				continue
			}
			nowNs := time.Now().UnixNano()
			var st int
			var user string
			var adm bool
			func() {
				defer func() {
					if e := recover(); e != nil {
						st = -1
						if viol == "" {
							viol = fmt.Sprintf("Check(%q) panicked: %v", truncS(p.text, 80), e)
						}
					}
				}()
				st, _, user, adm = A.f.Check(p.text)
			}()
			v := "Reject400"
			switch st {
			case http.StatusOK:
				v = fmt.Sprintf("(Accept %s %s)", cS(user), cB(adm))
				accepted++
			case http.StatusUnauthorized:
				v = "Reject401"
			case http.StatusBadRequest:
				v = "Reject400"
			case -1:
				v = "Reject400"
			default:
				viol = fmt.Sprintf("Check(%q) returned status %d", truncS(p.text, 80), st)
			}
			items = append(items, fmt.Sprintf("(%d%%Z, %s, %s)", nowNs, cS(p.text), v))
			classes[p.class]++
		}
		cls := "batch"
		c := vCase{Prop: "C07", Kind: "sessions", Class: cls, Nontrivial: true,
			Coq:   fmt.Sprintf("SessBatch %s %d%%Z %s", A.logTerm(), int64(life), cList(items)),
			Human: map[string]interface{}{"presentations": end - start, "classes": classes, "accepted": accepted, "log_entries": len(A.log)}}
		if viol != "" {
			c.Violation = viol
		}
		if start == 0 && nviol != "" {
			c.Violation = nviol
		}
		em.emit(c)
		for k, v := range classes {
			vStats["present/"+k] += v
		}
		vStats["accepted"] += accepted
	}
	vStats["issued-for-nonce-check"] = nIssue
	em.emit(vCase{Prop: "C07", Kind: "stats", Class: "stats", Human: vStats})
}

var vStats = map[string]int{}

func truncS(s string, n int) string {
	if len(s) > n {
		return s[:n]
	}
	return s
}
