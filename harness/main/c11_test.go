// C11: recorded concurrent histories at the agent's Store interface.
package main

import (
	"fmt"
	"sync"
	"time"
)

type c11Op struct {
	client    int
	kind      string
	user      string
	pw        string
	admin     bool
	call, ret int64
	ok        bool
	resAdmin  bool
}

func (o c11Op) coq() string {
	k := map[string]string{"add": "HAdd", "update": "HUpdate", "remove": "HRemove", "setadmin": "HSetAdmin", "auth": "HAuth"}[o.kind]
	return fmt.Sprintf("{| h_client := %d; h_kind := %s; h_user := %s; h_pw := %s; h_admin := %s; h_call := %d%%Z; h_ret := %d%%Z; h_ok := %s; h_res_admin := %s |}",
		o.client, k, cS(o.user), cS(o.pw), cB(o.admin), o.call, o.ret, cB(o.ok), cB(o.resAdmin))
}

func runC11(em *vEmitter, r *vRng) {
	nh := 150
	if vThorough() {
		nh = 5000
	}
	users := []string{"alice", "bob", "carol", "dave"}
	pws := []string{"pw-a", "pw-b", "pw-c"}
	for hi := 0; hi < nh; hi++ {
		mode := ""
		if hi%2 == 1 {
			mode = "local"
		}
		ms := mNewStore("c11", r, 2)
		// initial users (on the non-default sets: upgradeable when upgrades are local)
		var init []string
		nu := 2 + r.intn(3)
		for i := 0; i < nu; i++ {
			if r.intn(4) == 0 {
				continue
			}
			adm := i == 0
			pw := pws[r.intn(len(pws))]
			pid := uint(1)
			if r.intn(2) == 0 {
				pid = 3
			}
			ms.plant(users[i], adm, pid, 1600000000, r.bytes(16), []byte(pw), "")
			init = append(init, fmt.Sprintf("(%s, (%s, %s))", cS(users[i]), cS(pw), cB(adm)))
		}
		st, err := NewStore(ms.cfgfile, mode, "", "", "")
		if err != nil {
			panic(err)
		}
		api := st.GetInterface()
		nclients := 2 + r.intn(7)
		var mu sync.Mutex
		var ops []c11Op
		var wg sync.WaitGroup
		t0 := time.Now()
		for c := 0; c < nclients; c++ {
			wg.Add(1)
			seed := r.next()
			go func(c int, seed uint64) {
				defer wg.Done()
				rr := vNewRng(seed)
				api := api
				if c%2 == 1 {
					api = st.GetInterface() // a handle of its own, like another listener of the same agent
				}
				n := 4 + rr.intn(5)
				for i := 0; i < n; i++ {
					o := c11Op{client: c, user: users[rr.intn(nu)], pw: pws[rr.intn(len(pws))]}
					k := rr.intn(100)
					o.call = int64(time.Since(t0))
					switch {
					case k < 40:
						o.kind = "auth"
						ok, adm, _, _ := api.Authenticate(o.user, o.pw)
						o.ok, o.resAdmin = ok, ok && adm
					case k < 65:
						o.kind = "update"
						o.ok = api.Update(o.user, o.pw) == nil
					case k < 80:
						o.kind = "add"
						o.admin = rr.intn(3) == 0
						o.ok = api.Add(o.user, o.pw, o.admin) == nil
					case k < 90:
						o.kind = "remove"
						o.ok = api.Remove(o.user) == nil
					default:
						o.kind = "setadmin"
						o.admin = rr.intn(2) == 0
						o.ok = api.SetAdmin(o.user, o.admin) == nil
					}
					o.ret = int64(time.Since(t0))
					mu.Lock()
					ops = append(ops, o)
					mu.Unlock()
				}
			}(c, seed)
		}
		fin := make(chan struct{})
		go func() { wg.Wait(); close(fin) }()
		select {
		case <-fin:
		case <-time.After(20 * time.Second):
			em.emit(vCase{Prop: "C11", Kind: "history", Class: "history/stalled", Nontrivial: true,
				Violation: fmt.Sprintf("requests of a recorded history never returned (upgrades=%q, %d clients)", mode, nclients),
				Human:     map[string]interface{}{"mode": mode, "clients": nclients}})
			return
		}
		// let queued internal upgrades drain, then read the final state sequentially
		time.Sleep(30 * time.Millisecond)
		for _, u := range users[:nu] {
			for pi, pw := range pws {
				o := c11Op{client: 1000, kind: "auth", user: u, pw: pw, call: int64(time.Since(t0))}
				rapi := api
				if pi%2 == 1 {
					rapi = st.GetInterface()
				}
				ok, adm, _, _ := rapi.Authenticate(u, pw)
				o.ok, o.resAdmin = ok, ok && adm
				o.ret = int64(time.Since(t0))
				ops = append(ops, o)
			}
		}
		checkErr := api.Check()
		var xs []string
		for _, o := range ops {
			xs = append(xs, o.coq())
		}
		em.emit(vCase{Prop: "C11", Kind: "history", Class: "history/upgrades-" + map[string]string{"": "off", "local": "local"}[mode], Nontrivial: nclients >= 2,
			Coq:   fmt.Sprintf("LinHist %s %s", cList(init), cList(xs)),
			Human: map[string]interface{}{"clients": nclients, "ops": len(ops), "mode": mode, "final_check_ok": checkErr == nil}})
		vStats["ops"] += len(ops)
		ms.cleanup()
	}
	// directed histories: a login queues a hash upgrade behind a backlog of other users' updates; before
	// it is served, acknowledged changes to the same user arrive (update, remove, remove + add, set-admin)
	nd := 40
	if vThorough() {
		nd = 1500
	}
	for di := 0; di < nd; di++ {
		ms := mNewStore("c11d", r, 2)
		nf := 8
		all := []string{"victim"}
		var init []string
		ms.plant("root", true, 2, 1600000000, r.bytes(32), []byte("rootpw"), "")
		init = append(init, fmt.Sprintf("(%s, (%s, %s))", cS("root"), cS("rootpw"), cB(true)))
		vadm := r.intn(2) == 0
		ms.plant("victim", vadm, []uint{1, 3}[r.intn(2)], 1600000000, r.bytes(16), []byte("old"), "")
		init = append(init, fmt.Sprintf("(%s, (%s, %s))", cS("victim"), cS("old"), cB(vadm)))
		for i := 0; i < nf; i++ {
			u := fmt.Sprintf("f%d", i)
			all = append(all, u)
			ms.plant(u, false, 2, 1600000000, r.bytes(32), []byte("fpw"), "")
			init = append(init, fmt.Sprintf("(%s, (%s, %s))", cS(u), cS("fpw"), cB(false)))
		}
		st, err := NewStore(ms.cfgfile, "local", "", "", "")
		if err != nil {
			panic(err)
		}
		api := st.GetInterface()
		var mu sync.Mutex
		var ops []c11Op
		t0 := time.Now()
		rec := func(o c11Op, f func(o *c11Op)) {
			o.call = int64(time.Since(t0))
			f(&o)
			o.ret = int64(time.Since(t0))
			mu.Lock()
			ops = append(ops, o)
			mu.Unlock()
		}
		upd := func(c int, u, pw string) {
			rec(c11Op{client: c, kind: "update", user: u, pw: pw}, func(o *c11Op) { o.ok = api.Update(u, pw) == nil })
		}
		var wg sync.WaitGroup
		rounds := 1 + r.intn(3)
		for i := 0; i < nf; i++ {
			wg.Add(1)
			go func(i int) {
				defer wg.Done()
				for k := 0; k < rounds; k++ {
					upd(10+i, fmt.Sprintf("f%d", i), "fpw")
				}
			}(i)
		}
		variant := di % 7
		if variant >= 5 {
			// the password change is already QUEUED (behind the backlog) when another client logs in with the
			// still valid old password: whichever of the two the dispatcher takes first, the upgrade the login
			// queues must not undo or replace the acknowledged change
			wg.Add(2)
			go func() {
				defer wg.Done()
				upd(1, "victim", "new")
			}()
			go func() {
				defer wg.Done()
				if variant == 6 {
					time.Sleep(time.Duration(200+r.intn(1500)) * time.Microsecond)
				}
				rec(c11Op{client: 3, kind: "auth", user: "victim", pw: "old"}, func(o *c11Op) {
					ok, adm, _, _ := api.Authenticate("victim", "old")
					o.ok, o.resAdmin = ok, ok && adm
				})
			}()
		}
		wg.Add(1)
		go func() {
			defer wg.Done()
			if variant >= 5 {
				return
			}
			rec(c11Op{client: 1, kind: "auth", user: "victim", pw: "old"}, func(o *c11Op) {
				ok, adm, _, _ := api.Authenticate("victim", "old")
				o.ok, o.resAdmin = ok, ok && adm
			})
			switch variant {
			case 0:
				upd(1, "victim", "new")
			case 1:
				rec(c11Op{client: 1, kind: "remove", user: "victim"}, func(o *c11Op) { o.ok = api.Remove("victim") == nil })
				rec(c11Op{client: 1, kind: "add", user: "victim", pw: "new", admin: false}, func(o *c11Op) { o.ok = api.Add("victim", "new", false) == nil })
			case 2:
				rec(c11Op{client: 1, kind: "remove", user: "victim"}, func(o *c11Op) { o.ok = api.Remove("victim") == nil })
			case 3:
				rec(c11Op{client: 1, kind: "setadmin", user: "victim", admin: !vadm}, func(o *c11Op) { o.ok = api.SetAdmin("victim", !vadm) == nil })
			case 4:
				rec(c11Op{client: 1, kind: "remove", user: "victim"}, func(o *c11Op) { o.ok = api.Remove("victim") == nil })
				rec(c11Op{client: 1, kind: "add", user: "victim", pw: "old", admin: !vadm}, func(o *c11Op) { o.ok = api.Add("victim", "old", !vadm) == nil })
				upd(1, "victim", "new")
			}
		}()
		fin := make(chan struct{})
		go func() { wg.Wait(); close(fin) }()
		select {
		case <-fin:
		case <-time.After(20 * time.Second):
			em.emit(vCase{Prop: "C11", Kind: "history", Class: "history/stalled", Nontrivial: true,
				Violation: "requests of a directed upgrade-race history never returned", Human: map[string]interface{}{"variant": variant}})
			return
		}
		// flush the update queue, then read sequentially
		upd(2, "f0", "fpw")
		upd(2, "f1", "fpw")
		time.Sleep(30 * time.Millisecond)
		for _, u := range all[:3] {
			for _, pw := range []string{"old", "new", "fpw"} {
				rec(c11Op{client: 1000, kind: "auth", user: u, pw: pw}, func(o *c11Op) {
					ok, adm, _, _ := api.Authenticate(u, pw)
					o.ok, o.resAdmin = ok, ok && adm
				})
			}
		}
		var xs []string
		for _, o := range ops {
			xs = append(xs, o.coq())
		}
		em.emit(vCase{Prop: "C11", Kind: "history", Class: fmt.Sprintf("history/upgrade-race-%d", variant), Nontrivial: true,
			Coq:   fmt.Sprintf("LinHist %s %s", cList(init), cList(xs)),
			Human: map[string]interface{}{"variant": variant, "ops": len(ops), "mode": "local"}})
		vStats["ops"] += len(ops)
		ms.cleanup()
	}
	// directed histories on ONE shared handle (every connection of a listener uses the listener's handle):
	// many clients log in at once, each as its own user, alternating the right and a wrong password; nothing
	// is written, so every answer is determined - and must reach the client that asked
	for hi := 0; hi < 5; hi++ {
		ms := mNewStore("c11s", r, 1)
		ms.params[1].Cost = 8 // a hash that takes long enough for the clients to pile up behind the dispatcher
		ms.writeCfg()
		var init []string
		nu := 24
		for i := 0; i < nu; i++ {
			u := fmt.Sprintf("user%d", i)
			ms.plant(u, i%3 == 0, 2, 1600000000, r.bytes(32), []byte("pw-"+u), "")
			init = append(init, fmt.Sprintf("(%s, (%s, %s))", cS(u), cS("pw-"+u), cB(i%3 == 0)))
		}
		st, err := NewStore(ms.cfgfile, "", "", "", "")
		if err != nil {
			panic(err)
		}
		shared := st.GetInterface()
		var mu sync.Mutex
		var ops []c11Op
		t0 := time.Now()
		var wg sync.WaitGroup
		for c := 0; c < nu; c++ {
			wg.Add(1)
			go func(c int) {
				defer wg.Done()
				u := fmt.Sprintf("user%d", c)
				for k := 0; k < 40; k++ {
					pw := "pw-" + u
					if (k+c)%2 == 1 {
						pw = "wrong"
					}
					o := c11Op{client: c, kind: "auth", user: u, pw: pw, call: int64(time.Since(t0))}
					ok, adm, _, _ := shared.Authenticate(u, pw)
					o.ok, o.resAdmin = ok, ok && adm
					o.ret = int64(time.Since(t0))
					mu.Lock()
					ops = append(ops, o)
					mu.Unlock()
				}
			}(c)
		}
		fin := make(chan struct{})
		go func() { wg.Wait(); close(fin) }()
		select {
		case <-fin:
		case <-time.After(20 * time.Second):
			em.emit(vCase{Prop: "C11", Kind: "history", Class: "history/stalled", Nontrivial: true,
				Violation: "logins on a shared handle never returned", Human: map[string]interface{}{}})
			return
		}
		// 2400 logins are too many for the search: hand over the first answer that is not the determined
		// one together with everything that overlaps it in time (or, if all are right, the first 30)
		bad := -1
		for i, o := range ops {
			if o.ok != (o.pw != "wrong") {
				bad = i
				break
			}
		}
		sel := ops
		if bad >= 0 {
			sel = nil
			for _, o := range ops {
				if o.call <= ops[bad].ret && o.ret >= ops[bad].call && len(sel) < 24 {
					sel = append(sel, o)
				}
			}
		} else if len(sel) > 30 {
			sel = sel[:30]
		}
		vStats["shared-handle-logins"] += len(ops)
		ops = sel
		var xs []string
		for _, o := range ops {
			xs = append(xs, o.coq())
		}
		em.emit(vCase{Prop: "C11", Kind: "history", Class: "history/shared-handle-logins", Nontrivial: true,
			Coq:   fmt.Sprintf("LinHist %s %s", cList(init), cList(xs)),
			Human: map[string]interface{}{"ops": len(ops), "mode": "off"}})
		ms.cleanup()
	}
	// directed histories across handles: a login through one handle, an acknowledged change of the same
	// user through another, then the old and new credentials through the first again (strictly sequential)
	for xi := 0; xi < 10; xi++ {
		ms := mNewStore("c11x", r, 1)
		var init []string
		ms.plant("root", true, 1, 1600000000, r.bytes(16), []byte("rootpw"), "")
		init = append(init, fmt.Sprintf("(%s, (%s, %s))", cS("root"), cS("rootpw"), cB(true)))
		vadm := xi%2 == 0
		ms.plant("victim", vadm, 1, 1600000000, r.bytes(16), []byte("old"), "")
		init = append(init, fmt.Sprintf("(%s, (%s, %s))", cS("victim"), cS("old"), cB(vadm)))
		st, err := NewStore(ms.cfgfile, "", "", "", "")
		if err != nil {
			panic(err)
		}
		hx, hy := st.GetInterface(), st.GetInterface()
		var ops []c11Op
		t0 := time.Now()
		rec := func(o c11Op, f func(o *c11Op)) {
			o.call = int64(time.Since(t0))
			f(&o)
			o.ret = int64(time.Since(t0))
			ops = append(ops, o)
		}
		auth := func(c int, h *Store, pw string) {
			rec(c11Op{client: c, kind: "auth", user: "victim", pw: pw}, func(o *c11Op) {
				ok, adm, _, _ := h.Authenticate("victim", pw)
				o.ok, o.resAdmin = ok, ok && adm
			})
		}
		auth(1, hx, "old")
		auth(1, hx, "old")
		switch xi % 5 {
		case 0:
			rec(c11Op{client: 2, kind: "update", user: "victim", pw: "new"}, func(o *c11Op) { o.ok = hy.Update("victim", "new") == nil })
		case 1:
			rec(c11Op{client: 2, kind: "remove", user: "victim"}, func(o *c11Op) { o.ok = hy.Remove("victim") == nil })
		case 2:
			rec(c11Op{client: 2, kind: "setadmin", user: "victim", admin: !vadm}, func(o *c11Op) { o.ok = hy.SetAdmin("victim", !vadm) == nil })
		case 3:
			rec(c11Op{client: 2, kind: "remove", user: "victim"}, func(o *c11Op) { o.ok = hy.Remove("victim") == nil })
			rec(c11Op{client: 2, kind: "add", user: "victim", pw: "new", admin: !vadm}, func(o *c11Op) { o.ok = hy.Add("victim", "new", !vadm) == nil })
		case 4:
			rec(c11Op{client: 2, kind: "update", user: "victim", pw: "new"}, func(o *c11Op) { o.ok = hy.Update("victim", "new") == nil })
			rec(c11Op{client: 2, kind: "update", user: "victim", pw: "old"}, func(o *c11Op) { o.ok = hy.Update("victim", "old") == nil })
			rec(c11Op{client: 2, kind: "setadmin", user: "victim", admin: !vadm}, func(o *c11Op) { o.ok = hy.SetAdmin("victim", !vadm) == nil })
		}
		auth(1, hx, "old")
		auth(1, hx, "new")
		auth(3, st.GetInterface(), "old")
		auth(2, hy, "old")
		var xs []string
		for _, o := range ops {
			xs = append(xs, o.coq())
		}
		em.emit(vCase{Prop: "C11", Kind: "history", Class: "history/across-handles", Nontrivial: true,
			Coq:   fmt.Sprintf("LinHist %s %s", cList(init), cList(xs)),
			Human: map[string]interface{}{"variant": xi % 5, "ops": len(ops), "mode": "off"}})
		ms.cleanup()
	}
	// directed histories: readers against a writer that only flips the admin status of the users they log
	// in as (the password never changes and the users always exist, so every login must succeed, and the
	// admin flag it reports must be one the writer had acknowledged or had in flight)
	nr := 12
	if vThorough() {
		nr = 400
	}
	for ri := 0; ri < nr; ri++ {
		ms := mNewStore("c11r", r, 1)
		var init []string
		us := []string{"root", "u1", "u2"}
		for i, u := range us {
			ms.plant(u, i == 0, 1, 1600000000, r.bytes(16), []byte("pw-"+u), "")
			init = append(init, fmt.Sprintf("(%s, (%s, %s))", cS(u), cS("pw-"+u), cB(i == 0)))
		}
		st, err := NewStore(ms.cfgfile, "", "", "", "")
		if err != nil {
			panic(err)
		}
		api := st.GetInterface()
		var mu sync.Mutex
		var ops []c11Op
		t0 := time.Now()
		rec := func(o c11Op, f func(o *c11Op)) {
			o.call = int64(time.Since(t0))
			f(&o)
			o.ret = int64(time.Since(t0))
			mu.Lock()
			ops = append(ops, o)
			mu.Unlock()
		}
		var wg sync.WaitGroup
		wg.Add(1)
		go func() { // the writer
			defer wg.Done()
			for k := 0; k < 8; k++ {
				u := us[1+k%2]
				adm := k%4 < 2
				rec(c11Op{client: 0, kind: "setadmin", user: u, admin: adm}, func(o *c11Op) { o.ok = api.SetAdmin(u, adm) == nil })
			}
		}()
		for c := 1; c <= 3; c++ {
			wg.Add(1)
			go func(c int) {
				defer wg.Done()
				for k := 0; k < 6; k++ {
					u := us[1+(k+c)%2]
					rec(c11Op{client: c, kind: "auth", user: u, pw: "pw-" + u}, func(o *c11Op) {
						ok, adm, _, _ := api.Authenticate(u, "pw-"+u)
						o.ok, o.resAdmin = ok, ok && adm
					})
				}
			}(c)
		}
		fin := make(chan struct{})
		go func() { wg.Wait(); close(fin) }()
		select {
		case <-fin:
		case <-time.After(20 * time.Second):
			em.emit(vCase{Prop: "C11", Kind: "history", Class: "history/stalled", Nontrivial: true,
				Violation: "requests of a directed reader/writer history never returned", Human: map[string]interface{}{}})
			return
		}
		for _, u := range us {
			rec(c11Op{client: 1000, kind: "auth", user: u, pw: "pw-" + u}, func(o *c11Op) {
				ok, adm, _, _ := api.Authenticate(u, "pw-"+u)
				o.ok, o.resAdmin = ok, ok && adm
			})
		}
		var xs []string
		for _, o := range ops {
			xs = append(xs, o.coq())
		}
		em.emit(vCase{Prop: "C11", Kind: "history", Class: "history/readers-vs-set-admin", Nontrivial: true,
			Coq:   fmt.Sprintf("LinHist %s %s", cList(init), cList(xs)),
			Human: map[string]interface{}{"ops": len(ops), "mode": "off"}})
		vStats["ops"] += len(ops)
		ms.cleanup()
	}
	em.emit(vCase{Prop: "C11", Kind: "stats", Class: "stats", Human: vStats})
}
