// C14 (agent level): records written by the running agent - add, update, hash upgrade; before and
// after a reload that changes the default parameter set - name the configured default and carry the
// digest of the password under that set's parameters.
package main

import (
	"fmt"
	"os"
	"path/filepath"
	"syscall"
	"time"
)

func runC14(em *vEmitter, r *vRng) {
	n := 6
	if vThorough() {
		n = 60
	}
	for k := 0; k < n; k++ {
		def0 := uint(1 + r.intn(3))
		def1 := def0%3 + 1
		if k%3 == 2 {
			def1 = (def0+1)%3 + 1
		}
		ms := mNewStore("c14a", r, def0)
		ms.plant("root", true, def0, 1600000000, r.bytes(16+16*btoi(def0 == 2)), []byte("rootpw"), "")
		ms.plant("old", false, def0, 1600000001, r.bytes(16+16*btoi(def0 == 2)), []byte("oldpw"), "totp: QQ==\n")
		st, err := NewStore(ms.cfgfile, "local", "", "", "")
		if err != nil {
			panic(err)
		}
		api := st.GetInterface()
		emit := func(phase, op, user, pw string, def uint) {
			c, err := os.ReadFile(userFile(ms.base, user))
			if err != nil {
				c = nil
			}
			msx := *ms
			msx.def = def
			ms.readBack(user, []byte(pw))
			em.emit(vCase{Prop: "C14", Kind: "agent-write", Class: "agent/" + phase + "/" + op, Nontrivial: true,
				Coq:   fmt.Sprintf("AgentWrite %s %s %s %s", msx.cfgTerm(), ms.tablesTerm(), cH(c), cS(pw)),
				Human: map[string]interface{}{"phase": phase, "op": op, "user": user, "configured_default": def, "record_pid": firstLinePid(userFile(ms.base, user))}})
		}
		api.Add("u1", "pw-u1", false)
		emit("before-reload", "add", "u1", "pw-u1", def0)
		api.Update("u1", "pw-u1b")
		emit("before-reload", "update", "u1", "pw-u1b", def0)
		// the operator changes the default and reloads
		ms.def = def1
		ms.writeCfg()
		syscall.Kill(os.Getpid(), syscall.SIGHUP)
		time.Sleep(80 * time.Millisecond)
		api.List()
		api.Add("u2", "pw-u2", k%2 == 0)
		emit("after-reload", "add", "u2", "pw-u2", def1)
		api.Update("u1", "pw-u1c")
		emit("after-reload", "update", "u1", "pw-u1c", def1)
		// a login of a user whose record is under the old default: upgraded to the new one
		api.Authenticate("old", "oldpw")
		deadline := time.Now().Add(500 * time.Millisecond)
		for time.Now().Before(deadline) && firstLinePid(userFile(ms.base, "old")) != int(def1) {
			time.Sleep(5 * time.Millisecond)
		}
		emit("after-reload", "upgrade", "old", "oldpw", def1)
		// a second reload back
		ms.def = def0
		ms.writeCfg()
		syscall.Kill(os.Getpid(), syscall.SIGHUP)
		time.Sleep(80 * time.Millisecond)
		api.List()
		api.Update("u2", "pw-u2b")
		emit("after-second-reload", "update", "u2", "pw-u2b", def0)
		_ = filepath.Join
		ms.cleanup()
	}
	em.emit(vCase{Prop: "C14", Kind: "stats", Class: "stats", Human: vStats})
}

func btoi(b bool) int {
	if b {
		return 1
	}
	return 0
}
