// Correspondence driver for package main (cmd/whawty-auth).
package main

import (
	"os"
	"strings"
	"testing"
)

func TestVerifDriver(t *testing.T) {
	prop := strings.ToUpper(os.Getenv("VERIF_PROP"))
	if prop == "" {
		t.Skip("VERIF_PROP not set")
	}
	em := vOpenEmitter()
	defer em.close()
	r := vNewRng(vSeed())
	switch prop {
	case "C07":
		runC07(em, r)
	case "C06":
		runC06(em, r)
	case "C04":
		runC04(em, r)
	case "C12":
		runC12(em, r)
	case "C19":
		runC19(em, r)
	case "C18":
		runC18(em, r)
	case "C17":
		runC17(em, r)
	case "C10":
		runC10(em, r)
	case "C11":
		runC11(em, r)
	case "C16":
		runC16(em, r)
	case "C14":
		runC14(em, r)
	case "C02":
		runC02(em, r)
	case "C03":
		runC03Frontends(em, r)
	case "C11W":
		c11WebRounds = 3
		runC06(em, r)
	default:
		t.Fatalf("unknown property %s", prop)
	}
}
