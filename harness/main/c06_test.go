// C06: the web API handlers (mux from newWebHandler) driven through httptest
// with the endpoint x credential x target x body-shape matrix, in sequences.
package main

import (
	"encoding/base64"
	"encoding/json"
	"fmt"
	"net/http"
	"net/http/httptest"
	"os"
	"path/filepath"
	"strconv"
	"strings"
	"sync"
	"syscall"
	"time"
)

type c06Body struct {
	session, username, password, old, new string
	admin                                 bool
}

func (b c06Body) coq() string {
	return fmt.Sprintf("(Some {| b_session := %s; b_username := %s; b_password := %s; b_old := %s; b_new := %s; b_admin := %s |})",
		cS(b.session), cS(b.username), cS(b.password), cS(b.old), cS(b.new), cB(b.admin))
}

var c06Fields = map[string][]string{
	"authenticate": {"username", "password"},
	"add":          {"session", "username", "password", "admin"},
	"remove":       {"session", "username"},
	"update":       {"session", "username", "oldpassword", "newpassword"},
	"set-admin":    {"session", "username", "admin"},
	"list":         {"session"},
	"list-full":    {"session"},
}
var c06Ep = map[string]string{"authenticate": "EAuth", "add": "EAdd", "remove": "ERemove", "update": "EUpdate", "set-admin": "ESetAdmin", "list": "EList", "list-full": "EListFull"}

func jstr(s string) string { b, _ := json.Marshal(s); return string(b) }

// JSON text for the endpoint in the given shape; decoded = what Go's decoder
// leaves in the handler's struct (nil = the document does not decode)
func c06Json(ep string, b c06Body, shape string) (string, *c06Body) {
	vals := map[string]string{"session": jstr(b.session), "username": jstr(b.username), "password": jstr(b.password),
		"oldpassword": jstr(b.old), "newpassword": jstr(b.new), "admin": strconv.FormatBool(b.admin)}
	fields := c06Fields[ep]
	dec := c06Body{}
	set := func(f string) {
		switch f {
		case "session":
			dec.session = b.session
		case "username":
			dec.username = b.username
		case "password":
			dec.password = b.password
		case "oldpassword":
			dec.old = b.old
		case "newpassword":
			dec.new = b.new
		case "admin":
			dec.admin = b.admin
		}
	}
	var kv []string
	for _, f := range fields {
		kv = append(kv, jstr(f)+":"+vals[f])
		set(f)
	}
	obj := "{" + strings.Join(kv, ",") + "}"
	switch shape {
	case "valid":
		return obj, &dec
	case "extra-unknown":
		return "{" + strings.Join(append(kv, `"foo":[1,2,{"x":null}]`), ",") + "}", &dec
	case "trailing-junk":
		return obj + " trailing garbage }{", &dec
	case "dup-keys":
		// a decoy value first, the real one last: the last one wins
		return "{" + `"username":"decoy",` + strings.Join(kv, ",") + "}", &dec
	case "omit-empty", "only-target":
		// keys with empty (zero) values are left out altogether - same meaning as writing them out;
		// "only-target": nothing but the user name and the new values (no credential key at all)
		var kv2 []string
		for _, f := range fields {
			if shape == "only-target" && (f == "session" || f == "oldpassword") {
				switch f {
				case "session":
					dec.session = ""
				case "oldpassword":
					dec.old = ""
				}
				continue
			}
			if vals[f] == `""` || (f == "admin" && !b.admin) {
				continue
			}
			kv2 = append(kv2, jstr(f)+":"+vals[f])
		}
		return "{" + strings.Join(kv2, ",") + "}", &dec
	case "missing-username":
		var kv2 []string
		for _, f := range fields {
			if f != "username" {
				kv2 = append(kv2, jstr(f)+":"+vals[f])
			}
		}
		dec.username = ""
		return "{" + strings.Join(kv2, ",") + "}", &dec
	case "null-username":
		var kv2 []string
		for _, f := range fields {
			if f == "username" {
				kv2 = append(kv2, `"username":null`)
			} else {
				kv2 = append(kv2, jstr(f)+":"+vals[f])
			}
		}
		dec.username = ""
		return "{" + strings.Join(kv2, ",") + "}", &dec
	case "wrong-type":
		var kv2 []string
		for _, f := range fields {
			if f == fields[0] {
				kv2 = append(kv2, jstr(f)+":12345")
			} else {
				kv2 = append(kv2, jstr(f)+":"+vals[f])
			}
		}
		return "{" + strings.Join(kv2, ",") + "}", nil
	case "not-json":
		return "{\"username\": ", nil
	case "empty-body":
		return "", nil
	case "array":
		return "[" + obj + "]", nil
	case "empty-session":
		d2 := dec
		var kv2 []string
		for _, f := range fields {
			if f == "session" {
				kv2 = append(kv2, `"session":""`)
				d2.session = ""
			} else {
				kv2 = append(kv2, jstr(f)+":"+vals[f])
			}
		}
		return "{" + strings.Join(kv2, ",") + "}", &d2
	}
	panic("shape " + shape)
}

type c06Run struct {
	ms       *mStore
	mux      *http.ServeMux
	sess     *webSessionFactory
	other    *webSessionFactory
	steps    []string
	human    []string
	logInit  []string
	pw       map[string]string
	lastSnap string
	initDir  string
	viol     string
}

func (x *c06Run) sealed(pt string) string {
	_, _, n, c := x.sess.sealToken(pt)
	x.logInit = append(x.logInit, fmt.Sprintf("{| s_nonce := %s; s_ct := %s; s_pt := %s |}", cH(n), cH(c), cS(pt)))
	return base64.URLEncoding.EncodeToString(n) + ":" + base64.URLEncoding.EncodeToString(c)
}

func (x *c06Run) request(ep string, body c06Body, shape string) (status int, session string) {
	text, dec := c06Json(ep, body, shape)
	// oracle preparation
	if dec != nil {
		x.ms.prepAuth(dec.username, []byte(dec.password))
		x.ms.prepAuth(dec.username, []byte(dec.old))
	}
	order := x.ms.dirOrder()
	req := httptest.NewRequest("POST", "/api/"+ep, strings.NewReader(text))
	req.Header.Set("Content-Type", "application/json")
	rec := httptest.NewRecorder()
	nowNs := time.Now().UnixNano()
	func() {
		defer func() {
			if e := recover(); e != nil && x.viol == "" {
				x.viol = fmt.Sprintf("handler /api/%s panicked on %s: %v", ep, truncS(text, 200), e)
				rec.Code = 599
			}
		}()
		x.mux.ServeHTTP(rec, req)
	}()
	status = rec.Code
	var resp map[string]interface{}
	json.Unmarshal(rec.Body.Bytes(), &resp)
	hasList := resp != nil && resp["list"] != nil
	sessTerm := "None"
	nonce, ct := []byte(nil), []byte(nil)
	nowS := int64(0)
	if s, ok := resp["session"].(string); ok && s != "" {
		session = s
		sessTerm = "(Some " + cS(s) + ")"
		parts := strings.SplitN(s, ":", 2)
		if len(parts) == 2 {
			nonce, _ = base64.URLEncoding.DecodeString(parts[0])
			ct, _ = base64.URLEncoding.DecodeString(parts[1])
			if st, _, pt := x.sess.openToken(nonce, ct); st == http.StatusOK {
				f := strings.Split(pt, ":")
				nowS, _ = strconv.ParseInt(f[len(f)-1], 10, 64)
			}
		}
	}
	ts, salt := int64(0), []byte(nil)
	snap := x.ms.snapshotTerm()
	snapTerm := "SnapSame"
	if snap != x.lastSnap {
		snapTerm = "(Snap " + snap + ")"
		x.lastSnap = snap
		if dec != nil {
			pw := dec.password
			if ep == "update" {
				pw = dec.new
			}
			ts, salt = x.ms.readBack(dec.username, []byte(pw))
		}
	}
	bodyTerm := "None"
	if dec != nil {
		bodyTerm = dec.coq()
	}
	orc := fmt.Sprintf("{| wo_store := {| o_ts := %s; o_salt := %s; o_tmp := []; o_order := %s |}; wo_now_ns := %d%%Z; wo_now_s := %s; wo_nonce := %s; wo_ct := %s |}",
		cZ(ts), cH(salt), order, nowNs, cZ(nowS), cH(nonce), cH(ct))
	x.steps = append(x.steps, fmt.Sprintf("(%s, %s, %s, %d, %s, %s, %s)", c06Ep[ep], bodyTerm, orc, status, cB(hasList), sessTerm, snapTerm))
	x.human = append(x.human, fmt.Sprintf("%s[%s] %s -> %d list=%v session=%v", ep, shape, truncS(text, 160), status, hasList, session != ""))
	vStats[ep+"/"+strconv.Itoa(status)]++
	return
}

// C11 runs a few of these sequences as well (prop tag C11W): the web layer in front of the dispatcher
// must answer every request as the sequential semantics do, whatever other connections sent before
var c11WebRounds = 0

func runC06(em *vEmitter, r *vRng) {
	thorough := vThorough()
	nseq := 12
	if thorough {
		nseq = 200
	}
	if c11WebRounds > 0 {
		nseq = c11WebRounds
		if thorough {
			nseq = 20
		}
	}
	eps := []string{"authenticate", "add", "remove", "update", "set-admin", "list", "list-full"}
	shapes := []string{"valid", "valid", "valid", "omit-empty", "omit-empty", "only-target", "extra-unknown", "trailing-junk", "dup-keys", "missing-username", "null-username", "wrong-type", "not-json", "empty-body", "array", "empty-session"}
	for seq := 0; seq < nseq; seq++ {
		ms := mNewStore("c06", r, 1)
		ms.plant("root", true, 1, 1600000000, r.bytes(16), []byte("rootpw"), "")
		ms.plant("alice", false, 1, 1600000001, r.bytes(16), []byte("alicepw"), "totp: QQ==\n")
		ms.plant("bob", false, 2, 1600000002, r.bytes(32), []byte("bobpw"), "")
		ms.plant("carol", true, 3, 1600000003, r.bytes(16), []byte("carolpw"), "")
		// names that a sloppy comparison (case folding, prefix, trimming) would confuse with "alice"
		ms.plant("Alice", false, 1, 1600000004, r.bytes(16), []byte("Alicepw"), "")
		ms.plant("ALICE", true, 1, 1600000005, r.bytes(16), []byte("ALICEpw"), "")
		ms.plant("alice2", false, 1, 1600000006, r.bytes(16), []byte("alice2pw"), "")
		ms.plant("alic", false, 1, 1600000007, r.bytes(16), []byte("alicpw"), "")
		st, err := NewStore(ms.cfgfile, "", "", "", "")
		if err != nil {
			panic(err)
		}
		mux, err := newWebHandler(st.GetInterface())
		if err != nil {
			panic(err)
		}
		h, _ := mux.Handler(httptest.NewRequest("POST", "/api/list", nil))
		x := &c06Run{ms: ms, mux: mux, sess: h.(webHandler).sessions, pw: map[string]string{"root": "rootpw", "alice": "alicepw", "bob": "bobpw", "carol": "carolpw",
			"Alice": "Alicepw", "ALICE": "ALICEpw", "alice2": "alice2pw", "alic": "alicpw"}}
		x.other, _ = NewWebSessionFactory(600 * time.Second)
		x.initDir = ms.snapshotTerm()
		x.lastSnap = x.initDir
		now := time.Now().Unix()
		// credentials
		tokens := map[string]string{}
		_, tokens["admin"] = x.request("authenticate", c06Body{username: "root", password: "rootpw"}, "valid")
		_, tokens["user"] = x.request("authenticate", c06Body{username: "alice", password: "alicepw"}, "valid")
		_, tokens["admin2"] = x.request("authenticate", c06Body{username: "carol", password: "carolpw"}, "valid")
		_, tokens["user2"] = x.request("authenticate", c06Body{username: "bob", password: "bobpw"}, "valid")
		tokens["none"] = ""
		tokens["garbage"] = "Zm9v:YmFy"
		tokens["garbage2"] = "not a token"
		tokens["expired-admin"] = x.sealed(fmt.Sprintf("root:true:%d", now-700))
		tokens["future-admin"] = x.sealed(fmt.Sprintf("root:true:%d", now+100))
		tokens["almost-expired-admin"] = x.sealed(fmt.Sprintf("root:true:%d", now-560))
		tokens["lenient-flag"] = x.sealed(fmt.Sprintf("root:True:%d", now))
		tokens["ghost-admin"] = x.sealed(fmt.Sprintf("ghost:true:%d", now))
		if t := tokens["admin"]; len(t) > 20 {
			b := []byte(t)
			if b[len(b)-5] == 'A' {
				b[len(b)-5] = 'B'
			} else {
				b[len(b)-5] = 'A'
			}
			tokens["tampered-admin"] = string(b)
		}
		_, _, on, oc := x.other.sealToken(fmt.Sprintf("root:true:%d", now))
		tokens["other-instance"] = base64.URLEncoding.EncodeToString(on) + ":" + base64.URLEncoding.EncodeToString(oc)
		var credKinds []string
		for k := range tokens {
			credKinds = append(credKinds, k)
		}
		sortStrings(credKinds)
		targets := []string{"alice", "bob", "carol", "root", "nobody", "../x", "", "new" + strconv.Itoa(seq), "al:ice",
			"Alice", "ALICE", "alice2", "alic", "alice ", " alice", "alice\x00", "Bob", "ROOT"}
		near := []string{"Alice", "ALICE", "alice2", "alic", "alice ", "Bob", "alice"}
		do := func(ep string, b c06Body, shape string) {
			before := x.lastSnap
			status, _ := x.request(ep, b, shape)
			// keep the harness's own view of current passwords in step with acknowledged changes
			if status == 200 && x.lastSnap != before {
				_, dec := c06Json(ep, b, shape)
				if dec != nil {
					switch ep {
					case "update":
						x.pw[dec.username] = dec.new
					case "add":
						x.pw[dec.username] = dec.password
					case "remove":
						delete(x.pw, dec.username)
					}
				}
			}
		}
		// systematic part: every non-admin credential against every target on the session form of
		// update, and on one management endpoint (rotating), with a well-formed body
		mgmt := []string{"add", "remove", "set-admin", "list", "list-full"}
		for _, cred := range []string{"user", "user2", "ghost-admin", "expired-admin", "other-instance", "tampered-admin"} {
			for _, tgt := range targets {
				if cred != "user" && cred != "user2" && r.intn(4) != 0 {
					continue
				}
				do("update", c06Body{session: tokens[cred], username: tgt, new: "sys" + strconv.Itoa(r.intn(1000))}, "valid")
				do(mgmt[r.intn(len(mgmt))], c06Body{session: tokens[cred], username: tgt, password: "pwx", admin: r.intn(2) == 0}, "valid")
			}
		}
		// a token names the user's CURRENT admin status: an administrator logs in, is demoted by another
		// administrator, logs in again at once (and the other way round for an ordinary user)
		do("authenticate", c06Body{username: "carol", password: x.pw["carol"]}, "valid")
		do("set-admin", c06Body{session: tokens["admin"], username: "carol", admin: false}, "valid")
		_, relogin := x.request("authenticate", c06Body{username: "carol", password: x.pw["carol"]}, "valid")
		do("list", c06Body{session: relogin}, "valid")
		do("set-admin", c06Body{session: relogin, username: "carol", admin: true}, "valid")
		do("authenticate", c06Body{username: "bob", password: x.pw["bob"]}, "valid")
		do("set-admin", c06Body{session: tokens["admin"], username: "bob", admin: true}, "valid")
		_, relogin2 := x.request("authenticate", c06Body{username: "bob", password: x.pw["bob"]}, "valid")
		do("list", c06Body{session: relogin2}, "valid")
		do("set-admin", c06Body{session: tokens["admin"], username: "bob", admin: false}, "valid")
		do("set-admin", c06Body{session: tokens["admin"], username: "carol", admin: true}, "valid")
		// a request that carries no credential key at all, right after an accepted one of the same kind
		// (state kept between requests - pooled or cached request objects - must not lend it a credential)
		for _, ep := range []string{"update", "add", "remove", "set-admin", "list", "list-full"} {
			do(ep, c06Body{session: tokens["admin"], username: "bob", password: "carry", new: "carry" + strconv.Itoa(seq), admin: false}, "valid")
			do(ep, c06Body{username: "alice", password: "stolen", new: "stolen" + strconv.Itoa(seq), admin: true}, "only-target")
			do(ep, c06Body{new: "stolen2" + strconv.Itoa(seq)}, "only-target")
		}
		n := 45
		for i := 0; i < n; i++ {
			ep := eps[r.intn(len(eps))]
			shape := shapes[r.intn(len(shapes))]
			cred := credKinds[r.intn(len(credKinds))]
			if r.intn(3) == 0 {
				cred = []string{"admin", "user", "admin2"}[r.intn(3)]
			}
			tgt := targets[r.intn(len(targets))]
			if (cred == "user" || cred == "user2") && r.intn(2) == 0 {
				tgt = near[r.intn(len(near))] // an ordinary session aimed at a look-alike of its own name
			}
			b := c06Body{session: tokens[cred], username: tgt, password: "pw" + strconv.Itoa(r.intn(3)), admin: r.intn(2) == 0}
			switch ep {
			case "authenticate":
				b.session = ""
				if p, ok := x.pw[tgt]; ok && r.intn(2) == 0 {
					b.password = p
				}
				if r.intn(8) == 0 {
					b.password = ""
				}
			case "update":
				switch r.intn(6) {
				case 0: // own / admin session
					b.new = "new" + strconv.Itoa(i)
				case 1: // right old password
					b.session = ""
					b.old = x.pw[tgt]
					b.new = "new" + strconv.Itoa(i)
				case 2: // wrong old password
					b.session = ""
					b.old = "wrong"
					b.new = "new" + strconv.Itoa(i)
				case 3: // both
					b.old = x.pw[tgt]
					b.new = "new" + strconv.Itoa(i)
				case 4: // neither
					b.session = ""
					b.new = "new" + strconv.Itoa(i)
				case 5: // upgrade-only form (no new password)
					b.session = ""
					b.old = x.pw[tgt]
				}
			case "add":
				if r.intn(6) == 0 {
					b.password = ""
				}
			}
			do(ep, b, shape)
		}
		// a credential that expires between two uses: accepted while valid, refused afterwards -
		// on every endpoint, whatever was presented before (sequences 0 and 1 only: it sleeps)
		if seq < 2 {
			cred := []string{"root:true:%d", "alice:false:%d"}[seq]
			tok := x.sealed(fmt.Sprintf(cred, time.Now().Unix()-597))
			do("list", c06Body{session: tok}, "valid")
			do("update", c06Body{session: tok, username: "alice", new: "early" + strconv.Itoa(seq)}, "valid")
			time.Sleep(time.Until(time.Unix(time.Now().Unix()+4, 0)))
			for _, ep := range eps[1:] {
				do(ep, c06Body{session: tok, username: "alice", password: "late", new: "late" + strconv.Itoa(seq), admin: true}, "valid")
			}
		}
		// concurrent logins on this listener (sequence 2 only; nothing but the session log changes, and the
		// sequence is over): a wrong password or an unknown user never gets a session, whoever logs in next to it
		if seq == 2 {
			var wg sync.WaitGroup
			var cmu sync.Mutex
			// someone who still exists at this point of the sequence, with the password the harness tracked
			var known []string
			for u := range x.pw {
				if x.pw[u] != "" && !strings.ContainsAny(u, " \x00/:") {
					known = append(known, u)
				}
			}
			sortStrings(known)
			cu := "root"
			if len(known) > 0 {
				cu = known[len(known)-1]
			}
			for g := 0; g < 12 && len(known) > 0; g++ {
				wg.Add(1)
				go func(g int) {
					defer wg.Done()
					for i := 0; i < 40; i++ {
						u, pw, right := cu, x.pw[cu], true
						switch (g + i) % 3 {
						case 1:
							u, pw, right = "alice", "definitely-wrong", false
						case 2:
							u, pw, right = "ghost", "pw", false
						}
						b, _ := json.Marshal(map[string]string{"username": u, "password": pw})
						rec := httptest.NewRecorder()
						x.mux.ServeHTTP(rec, httptest.NewRequest("POST", "/api/authenticate", strings.NewReader(string(b))))
						if (rec.Code == http.StatusOK) != right {
							cmu.Lock()
							if x.viol == "" {
								x.viol = fmt.Sprintf("concurrent logins: authenticate as %q with password %q answered %d (expected %v): %s", u, pw, rec.Code, right, truncS(rec.Body.String(), 120))
							}
							cmu.Unlock()
						}
					}
				}(g)
			}
			wg.Wait()
		}
		coq := fmt.Sprintf("WebSeq %s %s %s %s %d %s", ms.cfgTerm(), ms.tablesTerm(), x.initDir, cList(x.logInit), 600000, cList(x.steps))
		c := vCase{Prop: "C06", Kind: "webseq", Class: "sequence", Nontrivial: true, Coq: coq, Human: map[string]interface{}{"requests": x.human}}
		if x.viol != "" {
			c.Violation = x.viol
		}
		em.emit(c)
		// after a reload that switches to ANOTHER store directory (every third sequence): the same listener,
		// the same session factory - the sessions handed out so far stay what they are - but passwords,
		// existence and admin status are now those of the new directory
		if seq%3 == 1 {
			newBase := filepath.Join(ms.root, "newbase")
			os.Mkdir(newBase, 0700)
			ms2 := *ms
			ms2.base = newBase
			ms2.plant("root", true, 1, 1600000100, r.bytes(16), []byte("rootpw-new"), "")
			ms2.plant("alice", true, 2, 1600000101, r.bytes(32), []byte("alicepw-new"), "")
			ms2.plant("carol", false, 1, 1600000102, r.bytes(16), []byte("carolpw"), "")
			ms2.plant("mallory", false, 3, 1600000103, r.bytes(16), []byte("mallorypw"), "")
			os.WriteFile(ms.cfgfile, []byte(mYaml(newBase, 1, ms.params)), 0600)
			syscall.Kill(os.Getpid(), syscall.SIGHUP)
			switched := false
			for i := 0; i < 200 && !switched; i++ {
				time.Sleep(10 * time.Millisecond)
				if l, err := st.GetInterface().List(); err == nil {
					_, hasM := l["mallory"]
					switched = hasM
				}
			}
			y := &c06Run{ms: &ms2, mux: mux, sess: x.sess, other: x.other, pw: map[string]string{"root": "rootpw-new", "alice": "alicepw-new", "carol": "carolpw", "mallory": "mallorypw"}}
			// the sessions of the first part are part of this part's history
			y.logInit = append([]string{}, x.logInit...)
			for _, k := range []string{"admin", "user", "admin2", "user2"} {
				parts := strings.SplitN(tokens[k], ":", 2)
				if len(parts) != 2 {
					continue
				}
				n, _ := base64.URLEncoding.DecodeString(parts[0])
				ct, _ := base64.URLEncoding.DecodeString(parts[1])
				if stt, _, pt := x.sess.openToken(n, ct); stt == http.StatusOK {
					y.logInit = append(y.logInit, fmt.Sprintf("{| s_nonce := %s; s_ct := %s; s_pt := %s |}", cH(n), cH(ct), cS(pt)))
				}
			}
			y.initDir = ms2.snapshotTerm()
			y.lastSnap = y.initDir
			if !switched {
				y.viol = "the agent did not switch to the new store directory within 2 s of the reload signal"
			}
			// logins: old-store passwords are no longer current, new-store ones are; admin status is the new one
			for _, q := range [][2]string{{"root", "rootpw"}, {"root", "rootpw-new"}, {"alice", "alicepw"}, {"alice", "alicepw-new"}, {"bob", "bobpw"},
				{"carol", "carolpw"}, {"mallory", "mallorypw"}, {"mallory", "wrong"}} {
				y.request("authenticate", c06Body{username: q[0], password: q[1]}, "valid")
			}
			// password changes authorised by the old password: only the CURRENT one counts
			y.request("update", c06Body{username: "alice", old: "alicepw", new: "byold" + strconv.Itoa(seq)}, "valid")
			y.request("update", c06Body{username: "bob", old: "bobpw", new: "byold" + strconv.Itoa(seq)}, "valid")
			y.request("update", c06Body{username: "mallory", old: "mallorypw", new: "mallorypw2"}, "valid")
			// sessions issued before the reload keep the identity and flag they were issued for
			for _, k := range []string{"admin", "user", "admin2", "user2", "other-instance", "expired-admin"} {
				y.request("list", c06Body{session: tokens[k]}, "valid")
				y.request("update", c06Body{session: tokens[k], username: "carol", new: "bysess" + k}, "valid")
			}
			_, tm := y.request("authenticate", c06Body{username: "mallory", password: "mallorypw2"}, "valid")
			_, ta := y.request("authenticate", c06Body{username: "alice", password: "alicepw-new"}, "valid")
			for _, tk := range []string{tm, ta} {
				y.request("list-full", c06Body{session: tk}, "valid")
				y.request("set-admin", c06Body{session: tk, username: "mallory", admin: true}, "valid")
				y.request("add", c06Body{session: tk, username: "newafter", password: "pw", admin: false}, "valid")
			}
			coq2 := fmt.Sprintf("WebSeq %s %s %s %s %d %s", ms2.cfgTerm(), ms2.tablesTerm(), y.initDir, cList(y.logInit), 600000, cList(y.steps))
			c2 := vCase{Prop: "C06", Kind: "webseq", Class: "sequence/after-reload-to-new-directory", Nontrivial: true, Coq: coq2, Human: map[string]interface{}{"requests": y.human}}
			if y.viol != "" {
				c2.Violation = y.viol
			}
			em.emit(c2)
		}
		ms.cleanup()
	}
	em.emit(vCase{Prop: "C06", Kind: "stats", Class: "stats", Human: vStats})
}

func sortStrings(xs []string) {
	for i := 1; i < len(xs); i++ {
		for j := i; j > 0 && xs[j-1] > xs[j]; j-- {
			xs[j-1], xs[j] = xs[j], xs[j-1]
		}
	}
}
