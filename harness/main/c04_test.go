// C04: the same credentials through every frontend and through store.Dir.
package main

import (
	"encoding/json"
	"fmt"
	"net"
	"net/http"
	"net/http/httptest"
	"os"
	"os/exec"
	"path/filepath"
	"strings"
	"sync"
	"time"
	"unicode/utf8"

	"github.com/glauth/ldap"
	"github.com/whawty/auth/sasl"
	lib "github.com/whawty/auth/store"
)

func runC04(em *vEmitter, r *vRng) {
	ms := mNewStore("c04", r, 1)
	defer ms.cleanup()
	type acct struct{ user, pw string }
	accts := []acct{{"alice", "secret"}, {"bob", "pass:word"}, {"carol", "p@ss w0rd "}, {"dave", "ünïcödé-\U0001F511"}, {"al", "secret"},
		{"erin", `q"uo\te`}, {"frank", "x"}, {"al@ice", "atpw"}, {"gina", strings.Repeat("L", 255)}, {"hugo", strings.Repeat("M", 256)}, {"ivan", strings.Repeat("N", 257)},
		{"u" + strings.Repeat("u", 199), "longname"}, {"jack", "tab\tnl\nend"}, {"kate", "secret\x00"}}
	for i, a := range accts {
		pid := uint(1 + i%3)
		sl := 16
		if pid == 2 {
			sl = 32
		}
		ms.plant(a.user, i == 0, pid, 1600000000, r.bytes(sl), []byte(a.pw), "")
	}
	st, err := NewStore(ms.cfgfile, "", "", "", "")
	if err != nil {
		panic(err)
	}
	api := st.GetInterface()
	mux, _ := newWebHandler(api)
	// saslauthd socket
	sock := filepath.Join(ms.root, "sasl.sock")
	ssrv, err := sasl.NewServer(sock, func(l, p, s, rlm string) (bool, string, error) { return callback(l, p, s, rlm, sock, api) })
	if err != nil {
		panic(err)
	}
	go ssrv.Run()
	// LDAP listener
	ln, err := net.Listen("tcp", "127.0.0.1:0")
	if err != nil {
		panic(err)
	}
	lsrv := ldap.NewServer()
	lsrv.BindFunc("", ldapHandler{store: api})
	go lsrv.Serve(ln)
	defer ln.Close()
	// the binary for the command-line frontend
	bin := filepath.Join(os.Getenv("VERIF_DIR"), ".build", "whawty-auth")

	direct, _ := lib.NewDirFromConfig(ms.cfgfile)
	storeVerdict := func(u, p string) (bool, bool) {
		ok, _, _, _, err := direct.Authenticate(u, p)
		return ok, err != nil
	}

	type q struct{ u, p string }
	var qs []q
	for _, a := range accts {
		qs = append(qs, q{a.user, a.pw})
		for _, v := range []string{a.pw + " ", " " + a.pw, strings.ToUpper(a.pw), strings.TrimSpace(a.pw), a.pw + "\n", a.pw[:len(a.pw)-1], a.pw + "x"} {
			qs = append(qs, q{a.user, v})
		}
		qs = append(qs, q{strings.ToUpper(a.user), a.pw}, q{a.user + " ", a.pw}, q{" " + a.user, a.pw}, q{a.user + "@example.org", a.pw}, q{a.user + "@", a.pw})
	}
	qs = append(qs, q{"al", "atpw"}, q{"al@ice@x", "atpw"}, q{"bob", "pass"}, q{"bob:pass", "word"}, q{"", "secret"}, q{"alice", ""}, q{"", ""},
		q{"nobody", "secret"}, q{"../alice", "secret"}, q{"alice\x00", "secret"}, q{"alice", "secret\x00"}, q{"kate", "secret"}, q{"cn=alice,dc=x", "secret"}, q{"alice,dc=x", "secret"},
		q{"alice", "sec\xffret"}, q{"dave", "ünïcödé-\xf0\x9f\x94\x91"}, q{"alice=", "secret"})
	if !vThorough() && len(qs) > 140 {
		// keep the binary runs affordable: sample the long tail, always keep the first and the special ones
		var keep []q
		for i, x := range qs {
			if i%2 == 0 || i >= len(qs)-24 {
				keep = append(keep, x)
			}
		}
		qs = keep
	}
	fes := []string{"FSasl", "FBasic", "FApi", "FLdap", "FCli"}
	probe := func(fe string, x q) (observed, skipped bool) {
		switch fe {
		case "FSasl":
			ok, _, err := sasl.NewClient(sock).Auth(x.u, x.p, "svc", "")
			observed = ok && err == nil
		case "FBasic":
			if strings.ContainsAny(x.u+x.p, "\x00\n\r") && false {
				skipped = true
			}
			req := httptest.NewRequest("GET", "/basic-auth", nil)
			req.SetBasicAuth(x.u, x.p)
			rec := httptest.NewRecorder()
			mux.ServeHTTP(rec, req)
			observed = rec.Code == http.StatusOK
		case "FApi":
			if !utf8.ValidString(x.u) || !utf8.ValidString(x.p) {
				skipped = true // outside JSON's limits
				break
			}
			b, _ := json.Marshal(map[string]string{"username": x.u, "password": x.p})
			rec := httptest.NewRecorder()
			mux.ServeHTTP(rec, httptest.NewRequest("POST", "/api/authenticate", strings.NewReader(string(b))))
			observed = rec.Code == http.StatusOK
		case "FLdap":
			conn, err := ldap.DialTimeout("tcp", ln.Addr().String(), 2*time.Second)
			if err != nil {
				skipped = true
				break
			}
			err = conn.Bind(x.u, x.p)
			conn.Close()
			observed = err == nil
			if x.p == "" {
				skipped = true // the client library itself refuses empty passwords / anonymous bind semantics
			}
		case "FCli":
			if strings.ContainsRune(x.u+x.p, 0) || strings.HasPrefix(x.u, "-") || x.u == "" || x.p == "" {
				skipped = true // not expressible as an argument / means "prompt"
				break
			}
			cmd := exec.Command(bin, "--store", ms.cfgfile, "authenticate", x.u, x.p)
			cmd.Stdin = nil
			err := cmd.Run()
			code := 0
			if ee, ok := err.(*exec.ExitError); ok {
				code = ee.ExitCode()
			} else if err != nil {
				skipped = true
			}
			observed = code == 0
		}
		return
	}
	var emu sync.Mutex
	record := func(fe string, x q, observed bool, class string) {
		// the verdict of the store for the name this frontend looks up
		name := x.u
		if fe == "FLdap" {
			name = strings.SplitN(x.u, "@", 2)[0]
		}
		sok, serr := storeVerdict(name, x.p)
		emu.Lock()
		defer emu.Unlock()
		em.emit(vCase{Prop: "C04", Kind: "frontend", Class: class + fe, Nontrivial: true,
			Coq:   fmt.Sprintf("FeCase %s %s %s %s %s %s", fe, cS(x.u), cS(x.p), cB(sok), cB(serr), cB(observed)),
			Human: map[string]interface{}{"frontend": fe, "user": x.u, "password": x.p, "store_ok": sok, "store_err": serr, "accepted": observed}})
		vStats[fmt.Sprintf("%s%s/accepted=%v", class, fe, observed)]++
	}
	for _, x := range qs {
		for _, fe := range fes {
			observed, skipped := probe(fe, x)
			if skipped {
				continue
			}
			record(fe, x, observed, "frontend/")
		}
	}
	// requests that leave fields out, right after an accepted login on the same listener: a missing field
	// is an empty field (state kept between requests must not fill it in)
	for round := 0; round < 6; round++ {
		a := accts[round%len(accts)]
		if !utf8.ValidString(a.user) || !utf8.ValidString(a.pw) {
			continue
		}
		post := func(body string) bool {
			rec := httptest.NewRecorder()
			mux.ServeHTTP(rec, httptest.NewRequest("POST", "/api/authenticate", strings.NewReader(body)))
			return rec.Code == http.StatusOK
		}
		ub, _ := json.Marshal(a.user)
		pb, _ := json.Marshal(a.pw)
		full := fmt.Sprintf(`{"username":%s,"password":%s}`, ub, pb)
		for _, inc := range []struct{ body, u, p string }{
			{fmt.Sprintf(`{"username":%s}`, ub), a.user, ""}, {`{}`, "", ""}, {fmt.Sprintf(`{"username":%s,"password":null}`, ub), a.user, ""},
			{fmt.Sprintf(`{"password":%s}`, pb), "", a.pw}, {fmt.Sprintf(`{"username":null,"password":%s}`, pb), "", a.pw}} {
			for rep := 0; rep < 4; rep++ {
				post(full)
				record("FApi", q{inc.u, inc.p}, post(inc.body), "frontend-incomplete/")
			}
		}
	}
	// the verdict follows the store, not what a frontend saw earlier: log in on every frontend, change
	// the password (or remove the user) through ANOTHER way in - a second web listener of the same agent,
	// the agent's interface as another frontend would use it, the command line - and ask again at once
	{
		mux2, _ := newWebHandler(api)
		changes := []string{"other-listener", "interface", "cli", "remove"}
		for ci, how := range changes {
			a := accts[1+ci]
			if !utf8.ValidString(a.user) || !utf8.ValidString(a.pw) {
				continue
			}
			for _, fe := range fes {
				if observed, skipped := probe(fe, q{a.user, a.pw}); !skipped {
					record(fe, q{a.user, a.pw}, observed, "frontend-before-change/")
				}
			}
			newpw := "changed-" + a.pw
			switch how {
			case "other-listener":
				b, _ := json.Marshal(map[string]string{"username": a.user, "oldpassword": a.pw, "newpassword": newpw})
				rec := httptest.NewRecorder()
				mux2.ServeHTTP(rec, httptest.NewRequest("POST", "/api/update", strings.NewReader(string(b))))
				if rec.Code != http.StatusOK {
					api.Update(a.user, newpw)
				}
			case "interface":
				api.Update(a.user, newpw)
			case "cli":
				cmd := exec.Command(bin, "--store", ms.cfgfile, "update", a.user, newpw)
				if err := cmd.Run(); err != nil {
					api.Update(a.user, newpw)
				}
			case "remove":
				api.Remove(a.user)
			}
			for rep := 0; rep < 2; rep++ {
				for _, fe := range fes {
					for _, x := range []q{{a.user, a.pw}, {a.user, newpw}} {
						if observed, skipped := probe(fe, x); !skipped {
							record(fe, x, observed, "frontend-after-change/"+how+"/")
						}
					}
				}
			}
		}
	}
	// the saslauthd socket is a stream: the same requests delivered in several segments (cut inside the
	// login, the password, the service, a length prefix; byte-wise), a few milliseconds apart
	for ai, a := range accts[:6] {
		for _, pw := range []string{a.pw, a.pw + "x"} {
			if len(a.user) == 0 || len(pw) == 0 || len(a.user) > 256 || len(pw) > 256 {
				continue
			}
			var msg []byte
			for _, f := range []string{a.user, pw, "imap", "example.org"} {
				msg = append(msg, byte(len(f)>>8), byte(len(f)))
				msg = append(msg, f...)
			}
			cutSets := [][]int{{2 + len(a.user)/2 + 1}, {2 + len(a.user) + 2 + len(pw)/2 + 1}, {1}, {2 + len(a.user) + 1}, {len(msg) - 3}, {3, len(msg) - 2}}
			if ai == 0 {
				var all []int
				for i := 1; i < len(msg); i++ {
					all = append(all, i)
				}
				cutSets = append(cutSets, all) // byte-wise
			}
			for _, cuts := range cutSets {
				conn, err := net.Dial("unix", sock)
				if err != nil {
					continue
				}
				prev := 0
				for _, c := range append(cuts, len(msg)) {
					if c <= prev || c > len(msg) {
						continue
					}
					conn.Write(msg[prev:c])
					prev = c
					time.Sleep(4 * time.Millisecond)
				}
				conn.SetReadDeadline(time.Now().Add(5 * time.Second))
				resp := &sasl.Response{}
				derr := resp.Decode(conn)
				conn.Close()
				record("FSasl", q{a.user, pw}, derr == nil && resp.Result, "frontend-segmented/")
			}
		}
	}
	// a correct password is a correct password also when the hash upgrade its login triggers cannot be
	// carried out (local upgrades, the record on a retired parameter set, '.tmp' a regular file so that no
	// record can be rewritten; or a password policy the old password does not meet)
	for _, why := range []string{"tmp-is-file", "policy"} {
		ms3 := mNewStore("c04u", r, 3)
		ms3.plant("root", true, 1, 1600000000, r.bytes(16), []byte("rootpw"), "")
		ms3.plant("upg", false, 2, 1600000001, r.bytes(32), []byte("upgpw"), "totp: QQ==\n")
		polT, polC := "", ""
		if why == "tmp-is-file" {
			os.WriteFile(filepath.Join(ms3.base, ".tmp"), []byte("not a directory"), 0600)
		} else {
			polT, polC = "zxcvbn", "score >= 4"
		}
		st3, err := NewStore(ms3.cfgfile, "local", polT, polC, "")
		if err != nil {
			panic(err)
		}
		api3 := st3.GetInterface()
		mux3, _ := newWebHandler(api3)
		direct3, _ := lib.NewDirFromConfig(ms3.cfgfile)
		for rep := 0; rep < 2; rep++ {
			for _, x := range []q{{"upg", "upgpw"}, {"root", "rootpw"}, {"upg", "wrong"}, {"upg@example.org", "upgpw"}} {
				for _, fe := range []string{"FSasl", "FBasic", "FApi", "FLdap"} {
					observed := false
					switch fe {
					case "FSasl":
						ok, _, err := callback(x.u, x.p, "svc", "", "test", api3)
						observed = ok && err == nil
					case "FBasic":
						req := httptest.NewRequest("GET", "/basic-auth", nil)
						req.SetBasicAuth(x.u, x.p)
						rec := httptest.NewRecorder()
						mux3.ServeHTTP(rec, req)
						observed = rec.Code == http.StatusOK
					case "FApi":
						b, _ := json.Marshal(map[string]string{"username": x.u, "password": x.p})
						rec := httptest.NewRecorder()
						mux3.ServeHTTP(rec, httptest.NewRequest("POST", "/api/authenticate", strings.NewReader(string(b))))
						observed = rec.Code == http.StatusOK
					case "FLdap":
						code, _ := ldapHandler{store: api3}.Bind(x.u, x.p, nil)
						observed = code == ldap.LDAPResultSuccess
					}
					name := x.u
					if fe == "FLdap" {
						name = strings.SplitN(x.u, "@", 2)[0]
					}
					sok, _, _, _, serr := direct3.Authenticate(name, x.p)
					emu.Lock()
					em.emit(vCase{Prop: "C04", Kind: "frontend", Class: "frontend-upgrade-fails/" + why + "/" + fe, Nontrivial: true,
						Coq:   fmt.Sprintf("FeCase %s %s %s %s %s %s", fe, cS(x.u), cS(x.p), cB(sok), cB(serr != nil), cB(observed)),
						Human: map[string]interface{}{"frontend": fe, "user": x.u, "password": x.p, "store_ok": sok, "accepted": observed, "why_the_upgrade_fails": why}})
					emu.Unlock()
					time.Sleep(5 * time.Millisecond)
				}
			}
		}
		ms3.cleanup()
	}
	// the same questions from many clients at once: nothing in the store changes, so every answer must
	// still be the store's verdict for that very pair (answers must not cross between connections)
	{
		nworkers, per := 24, 40
		if vThorough() {
			per = 400
		}
		var wg sync.WaitGroup
		for w := 0; w < nworkers; w++ {
			wg.Add(1)
			rr := vNewRng(r.next())
			go func(w int, rr *vRng) {
				defer wg.Done()
				fe := []string{"FSasl", "FBasic", "FApi", "FLdap"}[w%4]
				for i := 0; i < per; i++ {
					// alternate right and wrong credentials so that neighbouring answers differ
					x := qs[rr.intn(len(qs))]
					if i%2 == 0 {
						a := accts[rr.intn(len(accts))]
						x = q{a.user, a.pw}
					}
					observed, skipped := probe(fe, x)
					if !skipped {
						record(fe, x, observed, "frontend-concurrent/")
					}
				}
			}(w, rr)
		}
		wg.Wait()
	}
	em.emit(vCase{Prop: "C04", Kind: "stats", Class: "stats", Human: vStats})
}
