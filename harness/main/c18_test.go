// C18: configuration loading (generated / mutated YAML), accepted parameter
// sets used in a child process (a panic is an observable), reload on SIGHUP.
package main

import (
	"encoding/base64"
	"fmt"
	"os"
	"os/exec"
	"path/filepath"
	"strings"
	"sync"
	"syscall"
	"time"

	lib "github.com/whawty/auth/store"
)

type c18Set struct {
	id            uint64
	scrypt, argon bool
	key64         string
	cost          uint64
	r, p          int64
	t, m, th, ln  uint64
}

type c18Tree struct {
	basedir string
	def     uint64
	sets    []c18Set
}

func (t c18Tree) yaml() string {
	var b strings.Builder
	fmt.Fprintf(&b, "basedir: %q\ndefault: %d\n", t.basedir, t.def)
	if len(t.sets) > 0 {
		b.WriteString("params:\n")
	}
	for _, s := range t.sets {
		fmt.Fprintf(&b, "  - id: %d\n", s.id)
		if s.scrypt {
			// a zero value is sometimes written out and sometimes left out (same meaning)
			fmt.Fprintf(&b, "    scryptauth:\n      hmackey: %q\n      cost: %d\n", s.key64, s.cost)
			if s.r != 0 || s.id%2 == 0 {
				fmt.Fprintf(&b, "      r: %d\n", s.r)
			}
			if s.p != 0 || s.cost%2 == 0 {
				fmt.Fprintf(&b, "      p: %d\n", s.p)
			}
		}
		if s.argon {
			b.WriteString("    argon2id:\n")
			for _, f := range []struct {
				k string
				v uint64
			}{{"time", s.t}, {"memory", s.m}, {"threads", s.th}, {"length", s.ln}} {
				if f.v != 0 || (s.id+uint64(len(f.k)))%2 == 0 {
					fmt.Fprintf(&b, "      %s: %d\n", f.k, f.v)
				}
			}
		}
	}
	return b.String()
}

func (t c18Tree) coq() string {
	var xs []string
	for _, s := range t.sets {
		sp, ap := "None", "None"
		if s.scrypt {
			sp = fmt.Sprintf("(Some {| sp_key64 := %s; sp_cost := %d; sp_r := %s; sp_p := %s |})", cS(s.key64), s.cost, cZ(s.r), cZ(s.p))
		}
		if s.argon {
			ap = fmt.Sprintf("(Some {| ap_time := %d; ap_memory := %d; ap_threads := %d; ap_length := %d |})", s.t, s.m, s.th, s.ln)
		}
		xs = append(xs, fmt.Sprintf("{| sc_id := %d; sc_scrypt := %s; sc_argon := %s |}", s.id, sp, ap))
	}
	return fmt.Sprintf("{| t_basedir := %s; t_default := %d; t_sets := %s |}", cS(t.basedir), t.def, cList(xs))
}

func c18GenTree(r *vRng, base string) c18Tree {
	t := c18Tree{basedir: base}
	n := r.intn(4)
	for i := 0; i < n; i++ {
		s := c18Set{id: uint64(1 + r.intn(5))}
		if r.intn(12) == 0 {
			s.id = 0
		}
		switch r.intn(8) {
		case 0: // neither
		case 1:
			s.scrypt, s.argon = true, true
		case 2, 3, 4:
			s.scrypt = true
		default:
			s.argon = true
		}
		key := r.bytes(32)
		switch r.intn(10) {
		case 0:
			key = r.bytes(31)
		case 1:
			key = r.bytes(33)
		case 2:
			key = nil
		}
		s.key64 = base64.StdEncoding.EncodeToString(key)
		if r.intn(12) == 0 {
			s.key64 = "$$not base64§§"
		}
		s.cost = []uint64{0, 1, 2, 3, 14, 31, 32, 33}[r.intn(8)]
		if s.cost > 3 && s.cost < 32 {
			s.cost = uint64(1 + r.intn(3)) // keep accepted sets cheap
		}
		s.r = []int64{0, 1, 8, -1, 2}[r.intn(5)]
		s.p = []int64{0, 1, 2, -3}[r.intn(4)]
		s.t = []uint64{0, 1, 1, 2, 3}[r.intn(5)]
		s.m = []uint64{0, 1, 8, 16, 64}[r.intn(5)]
		s.th = []uint64{0, 1, 1, 2, 255}[r.intn(5)]
		s.ln = []uint64{0, 1, 16, 32, 64}[r.intn(5)]
		if s.th == 255 {
			s.m = 8 * 255
		}
		t.sets = append(t.sets, s)
	}
	if len(t.sets) > 0 && r.intn(5) != 0 {
		t.def = t.sets[r.intn(len(t.sets))].id
	} else {
		t.def = uint64(r.intn(3))
	}
	if r.intn(15) == 0 {
		t.basedir = ""
	}
	return t
}

func runC18(em *vEmitter, r *vRng) {
	root, _ := os.MkdirTemp("", "verif-c18-")
	defer os.RemoveAll(root)
	storeop := filepath.Join(os.Getenv("VERIF_DIR"), ".build", "storeop")
	n := 500
	if vThorough() {
		n = 12000
	}
	nChild := 0
	for i := 0; i < n; i++ {
		base := filepath.Join(root, fmt.Sprintf("b%d", i))
		t := c18GenTree(r, base)
		doc := t.yaml()
		term := "(Some " + t.coq() + ")"
		class := "tree"
		// YAML-level mutations: the decoder itself must refuse these
		switch r.intn(16) {
		case 0:
			doc += "unknownkey: 1\n"
			term, class = "None", "yaml/unknown-top-key"
		case 1, 6, 7:
			// an unknown key (or a known one in the wrong case) at a random nesting level: next to
			// any scalar entry of the document, in any parameter set
			lines := strings.Split(strings.TrimRight(doc, "\n"), "\n")
			var cand []int
			for li, l := range lines {
				if !strings.HasSuffix(l, ":") && strings.Contains(l, ": ") {
					cand = append(cand, li)
				}
			}
			if len(cand) > 0 {
				li := cand[r.intn(len(cand))]
				l := lines[li]
				ind := len(l) - len(strings.TrimLeft(l, " "))
				if strings.HasPrefix(strings.TrimLeft(l, " "), "- ") {
					ind += 2
				}
				key := []string{"zzunknown: 1", "rounds: 3", "R: 16", "Cost: 2", "costs: 14", "Time: 1", "hmacKey: \"AAAA\"", "ID: 9", "Default: 1"}[r.intn(9)]
				out := append([]string{}, lines[:li+1]...)
				out = append(out, strings.Repeat(" ", ind)+key)
				out = append(out, lines[li+1:]...)
				doc = strings.Join(out, "\n") + "\n"
				lvl := map[int]string{0: "top", 4: "set", 6: "algorithm-block"}[ind]
				term, class = "None", "yaml/unknown-key-"+lvl
			}
		case 2:
			doc = strings.Replace(doc, "default: ", "default: x", 1)
			term, class = "None", "yaml/type-error"
		case 3:
			if t.def != 0 { // "-0" is a legal zero
				doc = strings.Replace(doc, "default: ", "default: -", 1)
				term, class = "None", "yaml/negative"
			}
		case 4:
			if len(t.sets) > 0 && t.sets[0].argon && strings.Contains(doc, fmt.Sprintf("threads: %d\n", t.sets[0].th)) {
				doc = strings.Replace(doc, fmt.Sprintf("threads: %d\n", t.sets[0].th), "threads: 256\n", 1)
				term, class = "None", "yaml/uint8-overflow"
			}
		case 5:
			doc = "{ this is : not [ yaml"
			term, class = "None", "yaml/garbage"
		case 8:
			// an empty item in the list of parameter sets ("  -", "  - ~", "  - null"): it names no set;
			// the document means the same as without it
			if strings.Contains(doc, "params:\n") {
				item := []string{"  -\n", "  - ~\n", "  - null\n", "  - \n"}[r.intn(4)]
				if r.intn(2) == 0 {
					doc = strings.Replace(doc, "params:\n", "params:\n"+item, 1)
				} else {
					doc += item
				}
				class = "yaml/null-list-item"
			}
		case 9:
			// null in place of a block or a scalar
			if strings.Contains(doc, "    argon2id:\n") && r.intn(2) == 0 {
				i := strings.Index(doc, "    argon2id:\n")
				j := i + len("    argon2id:\n")
				for j < len(doc) && strings.HasPrefix(doc[j:], "      ") {
					j += strings.Index(doc[j:], "\n") + 1
				}
				doc = doc[:i] + "    argon2id: ~\n" + doc[j:]
				class = "yaml/null-block"
				term = ""
			}
		}
		cfg := filepath.Join(root, fmt.Sprintf("c%d.yaml", i))
		os.WriteFile(cfg, []byte(doc), 0600)
		viol := ""
		d, err := func() (d *lib.Dir, err error) {
			defer func() {
				if e := recover(); e != nil {
					viol = fmt.Sprintf("the configuration loader crashed: %v", e)
					err = fmt.Errorf("panic: %v", e)
				}
			}()
			return lib.NewDirFromConfig(cfg)
		}()
		accepted := err == nil
		if accepted && class == "tree" && t.basedir != "" && nChild < 120 && len(d.Params) > 0 {
			// every accepted parameter set must hash and verify or fail with an error - in a child process
			nChild++
			os.Mkdir(base, 0700)
			for _, s := range t.sets {
				// make this set the default in a copy of the configuration
				t2 := t
				t2.def = s.id
				cfg2 := filepath.Join(root, fmt.Sprintf("c%d-%d.yaml", i, s.id))
				os.WriteFile(cfg2, []byte(t2.yaml()), 0600)
				user := fmt.Sprintf("u%d", s.id)
				os.Remove(filepath.Join(base, user+".user"))
				cmd := exec.Command(storeop, cfg2, "add", user, "secret", "false")
				out, _ := cmd.CombinedOutput()
				so := string(out)
				if !strings.Contains(so, "RESULT ok") && !strings.Contains(so, "RESULT err") {
					viol = fmt.Sprintf("an accepted parameter set crashed the process on its first hash: set %+v: %s", s, truncS(so, 300))
				} else if strings.Contains(so, "RESULT ok") {
					out2, _ := exec.Command(storeop, cfg2, "auth", user, "secret").CombinedOutput()
					if !strings.Contains(string(out2), "ok=true") {
						viol = fmt.Sprintf("a record written under an accepted parameter set does not verify: set %+v: %s", s, truncS(string(out2), 200))
					}
				}
			}
		}
		c := vCase{Prop: "C18", Kind: "load", Class: "load/" + class + map[bool]string{true: "/accepted", false: "/refused"}[accepted], Nontrivial: true,
			Coq: fmt.Sprintf("LoadCase %s %s", term, cB(accepted)), Human: map[string]interface{}{"yaml": truncS(doc, 600), "accepted": accepted, "err": fmt.Sprint(err)}}
		if viol != "" {
			c.Violation = viol
		}
		if term == "" {
			c.Coq = "" // recorded, judged only for crashes (the block's meaning is not modelled)
		}
		em.emit(c)
	}
	vStats["child-process-checks"] = nChild

	// ---- reload on SIGHUP ----
	nrel := 8 // one per kind
	if vThorough() {
		nrel = 100
	}
	for k := 0; k < nrel; k++ {
		ms := mNewStore("c18r", r, 1)
		ms.plant("root", true, 1, 1600000000, r.bytes(16), []byte("rootpw"), "")
		// every other reload with local hash upgrades on: the upgrade queue is then the update queue, and
		// password changes are among the requests in flight
		upgMode := []string{"", "local"}[k%2]
		st, err := NewStore(ms.cfgfile, upgMode, "", "", "")
		if err != nil {
			panic(err)
		}
		api := st.GetInterface()
		// the new configuration
		newBase := filepath.Join(ms.root, "newbase")
		os.Mkdir(newBase, 0700)
		kinds := []string{"valid-new-dir", "new-default", "broken-yaml", "dir-fails-check", "unknown-default", "missing-dir",
			"same-dir-admin-unsupported", "same-dir-inconsistent"}
		kind := kinds[k%len(kinds)]
		newDef := uint(1)
		newBaseUsed := ms.base
		expectNew := false
		switch kind {
		case "valid-new-dir":
			ms2 := *ms
			ms2.base = newBase
			ms2.plant("root", true, 3, 1600000000, r.bytes(16), []byte("rootpw"), "")
			newDef, newBaseUsed, expectNew = 3, newBase, true
			os.WriteFile(ms.cfgfile, []byte(mYaml(newBase, 3, ms.params)), 0600)
		case "new-default":
			newDef, expectNew = 2, true
			os.WriteFile(ms.cfgfile, []byte(mYaml(ms.base, 2, ms.params)), 0600)
		case "broken-yaml":
			os.WriteFile(ms.cfgfile, []byte("basedir: [unclosed\n"), 0600)
		case "dir-fails-check":
			os.WriteFile(ms.cfgfile, []byte(mYaml(newBase, 3, ms.params)), 0600) // empty directory: no admin
			newBaseUsed = newBase
		case "unknown-default":
			os.WriteFile(ms.cfgfile, []byte(mYaml(ms.base, 77, ms.params)), 0600)
		case "same-dir-admin-unsupported":
			// same directory, well-formed configuration, but the only admin's parameter set is gone:
			// the directory fails the check UNDER THE NEW configuration
			var ps []mParam
			for _, p := range ms.params {
				if p.ID != 1 {
					ps = append(ps, p)
				}
			}
			newDef = 2
			os.WriteFile(ms.cfgfile, []byte(mYaml(ms.base, 2, ps)), 0600)
		case "same-dir-inconsistent":
			// same directory, new default, but the directory has become inconsistent in the meantime
			newDef = 2
			os.WriteFile(filepath.Join(ms.base, "root.user"), []byte("x\n"), 0600)
			os.WriteFile(ms.cfgfile, []byte(mYaml(ms.base, 2, ms.params)), 0600)
		case "missing-dir":
			os.WriteFile(ms.cfgfile, []byte(mYaml(filepath.Join(ms.root, "nowhere"), 1, ms.params)), 0600)
		}
		// clients keep working across the signal
		var wg sync.WaitGroup
		stop := make(chan struct{})
		var stuck int32
		for c := 0; c < 4; c++ {
			wg.Add(1)
			go func(c int) {
				defer wg.Done()
				for i := 0; ; i++ {
					select {
					case <-stop:
						return
					default:
					}
					api.Authenticate("root", "rootpw")
					api.Add(fmt.Sprintf("w%d-%d", c, i), "pw", false)
					api.Update(fmt.Sprintf("w%d-%d", c, i), "pw2")
				}
			}(c)
		}
		time.Sleep(20 * time.Millisecond)
		for j := 0; j < 1+k%3; j++ {
			syscall.Kill(os.Getpid(), syscall.SIGHUP)
			time.Sleep(15 * time.Millisecond)
		}
		time.Sleep(40 * time.Millisecond)
		close(stop)
		done := make(chan struct{})
		go func() { wg.Wait(); close(done) }()
		select {
		case <-done:
		case <-time.After(10 * time.Second):
			stuck = 1
		}
		// after the reload: where does a write go, and under which parameter set?
		probed := make(chan struct{})
		go func() { api.Add("probe", "probepw", false); close(probed) }()
		select {
		case <-probed:
		case <-time.After(10 * time.Second):
			// the agent no longer answers: report it (the wedged agent is left behind)
			c := vCase{Prop: "C18", Kind: "reload", Class: "reload/" + kind, Nontrivial: true,
				Human: map[string]interface{}{"kind": kind, "signals": 1 + k%3, "in_flight_requests_stuck": stuck == 1}}
			c.Violation = fmt.Sprintf("after %d reload signal(s) (%s) a request is not answered within 10 s: the reload wedged the agent "+
				"(requests in flight are to be answered normally, reload signals may arrive in any number)", 1+k%3, kind)
			em.emit(c)
			continue
		}
		inOld := fileExistsT(filepath.Join(ms.base, "probe.user"))
		inNew := fileExistsT(filepath.Join(newBase, "probe.user"))
		pid := firstLinePid(filepath.Join(ms.base, "probe.user"))
		if inNew {
			pid = firstLinePid(filepath.Join(newBase, "probe.user"))
		}
		observedNew := (newBaseUsed != ms.base && inNew) || (newBaseUsed == ms.base && pid == int(newDef) && newDef != 1)
		viol := ""
		if stuck == 1 {
			viol = "requests in flight during a reload never returned"
		}
		// never a mixture: the probe lies in exactly one directory, written under that configuration's default
		if inOld == inNew {
			viol = fmt.Sprintf("after reload (%s) the probe write is in old=%v new=%v", kind, inOld, inNew)
		} else if inNew && pid != int(newDef) {
			viol = fmt.Sprintf("mixture after reload (%s): new base directory but parameter set %d (new default %d)", kind, pid, newDef)
		} else if inOld && newBaseUsed != ms.base && pid != 1 {
			viol = fmt.Sprintf("mixture after reload (%s): old base directory but parameter set %d", kind, pid)
		}
		// every file the concurrent writers produced is a complete record of one of the two configurations
		for _, dir := range []string{ms.base, newBase} {
			ents, _ := os.ReadDir(dir)
			for _, e := range ents {
				if strings.HasPrefix(e.Name(), "w") {
					p := firstLinePid(filepath.Join(dir, e.Name()))
					want := 1
					if dir == newBase {
						want = int(newDef)
					}
					if dir == ms.base && kind == "new-default" {
						if p != 1 && p != 2 {
							viol = fmt.Sprintf("record %s written under parameter set %d", e.Name(), p)
						}
					} else if p != want {
						viol = fmt.Sprintf("mixture: record %s in %s written under parameter set %d", e.Name(), filepath.Base(dir), p)
					}
				}
			}
		}
		c := vCase{Prop: "C18", Kind: "reload", Class: "reload/" + kind, Nontrivial: true,
			Coq:   fmt.Sprintf("ReloadCase %s %s", cB(expectNew), cB(observedNew)),
			Human: map[string]interface{}{"kind": kind, "expect_new": expectNew, "observed_new": observedNew, "probe_in_old": inOld, "probe_in_new": inNew, "probe_pid": pid}}
		if viol != "" {
			c.Violation = viol
		}
		em.emit(c)
		ms.cleanup()
	}
	em.emit(vCase{Prop: "C18", Kind: "stats", Class: "stats", Human: vStats})
}

func fileExistsT(p string) bool { _, err := os.Stat(p); return err == nil }

func firstLinePid(p string) int {
	b, err := os.ReadFile(p)
	if err != nil {
		return -1
	}
	f := strings.Split(strings.SplitN(string(b), "\n", 2)[0], ":")
	if len(f) < 3 {
		return -1
	}
	var n int
	fmt.Sscanf(f[2], "%d", &n)
	return n
}
