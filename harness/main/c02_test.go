// C02 (agent level): after a reload that retires (or redefines) a parameter set, the running agent
// treats the hash files of that set as the configuration now in force prescribes.
package main

import (
	"fmt"
	"os"
	"syscall"
	"time"
)

func runC02(em *vEmitter, r *vRng) {
	n := 6
	if vThorough() {
		n = 60
	}
	for k := 0; k < n; k++ {
		ms := mNewStore("c02a", r, 2)
		ms.plant("root", true, 2, 1600000000, r.bytes(32), []byte("rootpw"), "")
		users := []string{"u1", "u2", "u3"}
		for i, u := range users {
			pid := uint(i + 1)
			ms.plant(u, false, pid, 1600000001+int64(i), r.bytes(16+16*btoi(pid == 2)), []byte("pw-"+u), []string{"", "totp: QQ==\n"}[i%2])
		}
		st, err := NewStore(ms.cfgfile, "", "", "", "")
		if err != nil {
			panic(err)
		}
		api := st.GetInterface()
		for _, u := range users {
			api.Authenticate(u, "pw-"+u) // every record is in use before the reload
		}
		// the new configuration: one set retired (k%3), or its parameters changed (k%3 == 2)
		old := ms.params
		var np []mParam
		switch k % 3 {
		case 0: // set 1 retired
			np = []mParam{old[1], old[2]}
		case 1: // set 3 retired, set 1 kept
			np = []mParam{old[0], old[1]}
		case 2: // set 3 redefined (another tag length): its old records no longer verify
			p3 := old[2]
			p3.Length = 24
			np = []mParam{old[0], old[1], p3}
		}
		ms.params = np
		ms.writeCfg()
		syscall.Kill(os.Getpid(), syscall.SIGHUP)
		time.Sleep(80 * time.Millisecond)
		api.List()
		for _, u := range users {
			pw := "pw-" + u
			ms.prepAuth(u, []byte(pw))
			dirTerm := ms.snapshotTerm()
			ok, _, _, _ := api.Authenticate(u, pw)
			l, _ := api.List()
			_, listed := l[u]
			lf, _ := api.ListFull()
			supported := lf[u].IsSupported
			before := ms.snapshotTerm()
			uerr := api.Update(u, "changed-"+u)
			after := ms.snapshotTerm()
			em.emit(vCase{Prop: "C02", Kind: "agent-file", Class: fmt.Sprintf("agent/after-reload-%d", k%3), Nontrivial: true,
				Coq: fmt.Sprintf("AgentFile %s %s %s %s %s %s %s %s %s %s", ms.cfgTerm(), ms.tablesTerm(), dirTerm, cS(u), cS(pw),
					cB(ok), cB(listed), cB(supported), cB(uerr == nil), cB(before != after)),
				Human: map[string]interface{}{"variant": k % 3, "user": u, "auth_ok": ok, "listed": listed, "supported": supported, "update_ok": uerr == nil, "changed": before != after}})
		}
		ms.cleanup()
	}
	em.emit(vCase{Prop: "C02", Kind: "stats", Class: "stats", Human: vStats})
}
