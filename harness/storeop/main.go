// storeop: performs exactly one store operation in a fresh process so that
// strace can observe (and inject faults into) its system calls.  The
// operation is bracketed by stat calls on two marker paths.
package main

import (
	"fmt"
	"os"

	"github.com/whawty/auth/store"
)

func main() {
	if len(os.Args) < 4 {
		fmt.Fprintln(os.Stderr, "usage: storeop <cfg> <op> <user> [pw] [admin]")
		os.Exit(2)
	}
	d, err := store.NewDirFromConfig(os.Args[1])
	if err != nil {
		fmt.Println("RESULT cfgerr", err)
		os.Exit(3)
	}
	op, user := os.Args[2], os.Args[3]
	pw := ""
	if len(os.Args) > 4 {
		pw = os.Args[4]
	}
	admin := len(os.Args) > 5 && os.Args[5] == "true"
	os.Stat("/verif-marker-begin")
	var res string
	switch op {
	case "add":
		err = d.AddUser(user, pw, admin)
	case "update":
		err = d.UpdateUser(user, pw)
	case "setadmin":
		err = d.SetAdmin(user, admin)
	case "remove":
		err = d.RemoveUser(user)
	case "init":
		err = d.Init(user, pw)
	case "auth":
		var ok, adm, upg bool
		ok, adm, upg, _, err = d.Authenticate(user, pw)
		res = fmt.Sprintf(" ok=%v admin=%v upg=%v", ok, adm, upg)
	case "exists":
		var ex, adm bool
		ex, adm, err = d.Exists(user)
		res = fmt.Sprintf(" exists=%v admin=%v", ex, adm)
	case "list":
		var l store.UserList
		l, err = d.List()
		res = fmt.Sprintf(" n=%d", len(l))
	case "listfull":
		var l store.UserListFull
		l, err = d.ListFull()
		res = fmt.Sprintf(" n=%d", len(l))
	case "check":
		err = d.Check()
	default:
		fmt.Fprintln(os.Stderr, "unknown op")
		os.Exit(2)
	}
	os.Stat("/verif-marker-end")
	// the verdict goes to stdout AND into the exit status: under `strace -f -e inject=write:...:when=N` the
	// N-th write of ANOTHER thread - this very line - can be hit by the injected error as well
	line, code := "RESULT ok"+res, 0
	if err != nil {
		line, code = "RESULT err"+res+" "+err.Error(), 10
	}
	if _, werr := fmt.Println(line); werr != nil {
		fmt.Fprintln(os.Stderr, line)
	}
	os.Exit(code)
}
