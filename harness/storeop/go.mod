module verif/storeop

go 1.23.0

require github.com/whawty/auth v0.0.0

require (
	golang.org/x/crypto v0.37.0 // indirect
	golang.org/x/sys v0.32.0 // indirect
	gopkg.in/spreadspace/scryptauth.v2 v2.0.0-20160119001838-d2c0fcba7783 // indirect
	gopkg.in/yaml.v3 v3.0.1 // indirect
)

replace github.com/whawty/auth => /repo
