package sasl

import "testing"

func runC05(em *vEmitter, t *testing.T) { t.Skip("C05 driver not built yet") }
