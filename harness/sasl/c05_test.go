// C05: sasl.Server against every kind of client byte stream and callback outcome.
package sasl

import (
	"bytes"
	"errors"
	"fmt"
	"net"
	"os"
	"path/filepath"
	"sync"
	"syscall"
	"testing"
	"time"
)

type c05Script struct {
	ok    bool
	msg   []byte
	err   bool
	delay time.Duration // the callback takes this long (not part of the model: the reply is the same)
}

// pause between the chunks of a request (a slow client), and the chunking to use (nil = random)
var c05ChunkPause = 200 * time.Microsecond
var c05ForceChunks []int

type c05Srv struct {
	mu     sync.Mutex
	calls  [][4]string
	script c05Script            // sequential phase
	byUser map[string]c05Script // concurrent phase
}

func (s *c05Srv) cb(login, password, service, realm string) (bool, string, error) {
	s.mu.Lock()
	s.calls = append(s.calls, [4]string{login, password, service, realm})
	sc := s.script
	if s.byUser != nil {
		if x, ok := s.byUser[login]; ok {
			sc = x
		}
	}
	s.mu.Unlock()
	if sc.delay > 0 {
		time.Sleep(sc.delay)
	}
	if sc.err {
		return sc.ok, "ignored", errors.New(string(sc.msg))
	}
	return sc.ok, string(sc.msg), nil
}

func cCb(sc c05Script) string {
	e := "None"
	if sc.err {
		e = "(Some " + cField(sc.msg) + ")"
	}
	m := cField(sc.msg)
	if sc.err {
		m = cS("ignored")
	}
	return fmt.Sprintf("{| cb_ok := %s; cb_msg := %s; cb_err := %s |}", cB(sc.ok), m, e)
}

// one connection: write stream in chunks, optionally half-close, collect the reply
func c05Conn(sock string, stream []byte, chunks []int, halfClose bool, wait time.Duration) (reply []byte, got bool) {
	c, err := net.Dial("unix", sock)
	if err != nil {
		// a server that no longer accepts (listen queue full, socket gone): no reply for this connection
		return nil, false
	}
	defer c.Close()
	uc := c.(*net.UnixConn)
	off := 0
	for _, n := range chunks {
		if off+n > len(stream) {
			n = len(stream) - off
		}
		if n > 0 {
			uc.Write(stream[off : off+n])
			off += n
			time.Sleep(c05ChunkPause)
		}
	}
	if off < len(stream) {
		uc.Write(stream[off:])
	}
	if halfClose {
		uc.CloseWrite()
	}
	uc.SetReadDeadline(time.Now().Add(wait))
	var buf bytes.Buffer
	tmp := make([]byte, 70000)
	for {
		n, err := uc.Read(tmp)
		buf.Write(tmp[:n])
		if err != nil {
			if ne, ok := err.(net.Error); ok && ne.Timeout() {
				if buf.Len() == 0 {
					return nil, false
				}
				return buf.Bytes(), true // data but no close within the wait: reported as is
			}
			break // EOF: server closed
		}
	}
	return buf.Bytes(), true
}

func runC05(em *vEmitter, t *testing.T) {
	r := vNewRng(vSeed())
	dir, err := os.MkdirTemp("", "verif-c05-")
	if err != nil {
		t.Fatal(err)
	}
	defer os.RemoveAll(dir)
	sock := filepath.Join(dir, "s.sock")
	srv := &c05Srv{}
	s, err := NewServer(sock, srv.cb)
	if err != nil {
		t.Fatal(err)
	}
	go s.Run()

	emit := func(stream []byte, halfClose bool, sc c05Script, class string) {
		srv.mu.Lock()
		srv.calls = nil
		srv.script = sc
		srv.mu.Unlock()
		var chunks []int
		for k := r.intn(4); k > 0; k-- {
			chunks = append(chunks, 1+r.intn(1+len(stream)))
		}
		wait := 2 * time.Second
		if !halfClose {
			wait = 250 * time.Millisecond
		}
		if c05ForceChunks != nil {
			chunks = c05ForceChunks
		}
		wait += sc.delay + time.Duration(len(chunks))*c05ChunkPause
		reply, got := c05Conn(sock, stream, chunks, halfClose, wait)
		time.Sleep(300 * time.Microsecond)
		srv.mu.Lock()
		calls := append([][4]string{}, srv.calls...)
		srv.mu.Unlock()
		var cs []string
		for _, c := range calls {
			cs = append(cs, cList([]string{cS(c[0]), cS(c[1]), cS(c[2]), cS(c[3])}))
		}
		rep := "None"
		gc := "None"
		if got {
			rep = "(Some " + cField2(reply) + ")"
			resp := &Response{}
			if err := resp.Decode(bytes.NewReader(reply)); err == nil {
				gc = "(Some (" + cB(resp.Result) + ", " + cField2([]byte(resp.Message)) + "))"
			}
		}
		em.emit(vCase{Prop: "C05", Kind: "conn", Class: class, Nontrivial: len(calls) > 0 || len(stream) > 2,
			Coq: fmt.Sprintf("Conn %s %s %s %s %s %s", cField2(stream), cB(halfClose), cCb(sc), cList(cs), rep, gc),
			Human: map[string]interface{}{"stream": vHex(truncB(stream, 300)), "streamlen": len(stream), "halfclose": halfClose,
				"cb": fmt.Sprintf("ok=%v err=%v msglen=%d", sc.ok, sc.err, len(sc.msg)), "calls": len(calls), "replylen": len(reply), "got": got}})
	}

	okSc := c05Script{ok: true, msg: []byte("successfully authenticated")}
	noSc := c05Script{ok: false, msg: []byte("wrong credentials")}
	valid := func() []byte { return validRequestBytes(r) }

	// (1) callback outcomes x message lengths
	lens := []int{0, 1, 2, 252, 253, 254, 255, 300, 4096, 65532, 65533, 65534, 70000}
	for _, l := range lens {
		for _, ok := range []bool{true, false} {
			for _, isErr := range []bool{false, true} {
				msg := bytes.Repeat([]byte{'m'}, l)
				if l > 0 && l < 300 {
					msg = r.bytes(l)
				}
				emit(valid(), true, c05Script{ok: ok, msg: msg, err: isErr}, fmt.Sprintf("cb/msglen-%d", l))
			}
		}
	}
	// (1b) time: a callback that takes longer than a client's default timeout (3 s in the PAM module), and a
	// client that delivers its request in pieces over several seconds: one reply with the callback's verdict
	for _, sc := range []c05Script{{ok: true, msg: []byte("slow but fine"), delay: 3600 * time.Millisecond},
		{ok: false, msg: []byte("slow and wrong"), delay: 3600 * time.Millisecond}} {
		emit(valid(), false, sc, "time/slow-callback")
	}
	c05ChunkPause, c05ForceChunks = 1250*time.Millisecond, []int{1, 2, 4}
	emit(valid(), true, okSc, "time/slow-client")
	emit([]byte{0, 5, 'a', 'l'}, true, noSc, "time/slow-client-truncated")
	c05ChunkPause, c05ForceChunks = 200*time.Microsecond, nil
	// (2) well-formed requests, with and without half-close, trailing bytes
	n := 60
	if vThorough() {
		n = 1500
	}
	for i := 0; i < n; i++ {
		sc := okSc
		if r.intn(2) == 0 {
			sc = noSc
		}
		st := valid()
		emit(st, r.intn(2) == 0, sc, "stream/valid")
		emit(append(st, r.bytes(1+r.intn(8))...), r.intn(2) == 0, sc, "stream/trailing-bytes")
	}
	// (3) truncated at every byte, each terminated by half-close and abandoned
	for k := 0; k < 3; k++ {
		st := valid()
		for cut := 0; cut < len(st); cut++ {
			emit(st[:cut], true, okSc, "stream/truncated-halfclose")
			if cut%3 == 0 || vThorough() {
				emit(st[:cut], false, okSc, "stream/truncated-abandoned")
			}
		}
	}
	// (4) over-long and boundary fields
	for _, l := range []int{255, 256, 257, 1000, 65535} {
		for pos := 0; pos < 4; pos++ {
			var b bytes.Buffer
			for f := 0; f < 4; f++ {
				fl := 1 + r.intn(3)
				if f == pos {
					fl = l
				}
				b.Write([]byte{byte(fl >> 8), byte(fl)})
				b.Write(bytes.Repeat([]byte{byte('a' + f)}, fl))
			}
			emit(b.Bytes(), true, okSc, fmt.Sprintf("stream/field-%d", l))
		}
	}
	// empty login / password
	emit([]byte{0, 0, 0, 1, 'p', 0, 0, 0, 0}, true, okSc, "stream/empty-login")
	emit([]byte{0, 1, 'u', 0, 0, 0, 0, 0, 0}, true, okSc, "stream/empty-password")
	// (5) random garbage
	ng := 150
	if vThorough() {
		ng = 4000
	}
	for i := 0; i < ng; i++ {
		emit(r.bytes(r.intn(40)), r.intn(3) != 0, okSc, "stream/random")
	}
	emit(nil, true, okSc, "stream/empty")
	emit(nil, false, okSc, "stream/empty-abandoned")

	// (5b) stalled peers: N connections that have sent nothing, or only a prefix of a request, and neither
	// finish nor close ("abandoned half-way", any number of concurrent connections).  Every further
	// connection must still be served: one reply with the callback's verdict, within the usual wait.
	for _, npeers := range []int{40, 130} {
		if npeers > 100 && !vThorough() {
			npeers = 70
		}
		var stalled []net.Conn
		for i := 0; i < npeers; i++ {
			c, err := net.Dial("unix", sock)
			if err != nil {
				break
			}
			switch i % 3 {
			case 1:
				c.Write([]byte{0, 5, 'a', 'l'})
			case 2:
				st := valid()
				c.Write(st[:len(st)-1])
			}
			stalled = append(stalled, c)
		}
		time.Sleep(50 * time.Millisecond)
		for k := 0; k < 4; k++ {
			sc := okSc
			if k%2 == 1 {
				sc = noSc
			}
			emit(valid(), k < 2, sc, fmt.Sprintf("stalled-peers/%d", len(stalled)))
		}
		emit([]byte{0, 1, 'u', 0}, true, okSc, fmt.Sprintf("stalled-peers/%d", len(stalled)))
		for _, c := range stalled {
			c.Close()
		}
		time.Sleep(20 * time.Millisecond)
	}

	// (5c) the process runs out of file descriptors for a moment while clients are waiting in the listen
	// queue (accept fails with EMFILE): when descriptors are back, every queued client and every new one
	// gets exactly one reply with the callback's verdict
	{
		var lim syscall.Rlimit
		syscall.Getrlimit(syscall.RLIMIT_NOFILE, &lim)
		ents, _ := os.ReadDir("/proc/self/fd")
		low := lim
		low.Cur = uint64(len(ents) + 30)
		if low.Cur > lim.Cur {
			low.Cur = lim.Cur
		}
		syscall.Setrlimit(syscall.RLIMIT_NOFILE, &low)
		var hold []*os.File
		for {
			f, err := os.Open("/dev/null")
			if err != nil {
				break
			}
			hold = append(hold, f)
		}
		var queued []net.Conn
		for k := 0; k < 3 && len(hold) > 0; k++ {
			hold[len(hold)-1].Close()
			hold = hold[:len(hold)-1]
			if c, err := net.Dial("unix", sock); err == nil {
				queued = append(queued, c)
			}
		}
		time.Sleep(300 * time.Millisecond)
		for _, f := range hold {
			f.Close()
		}
		syscall.Setrlimit(syscall.RLIMIT_NOFILE, &lim)
		for _, c := range queued {
			c.Close()
		}
		time.Sleep(50 * time.Millisecond)
		for k := 0; k < 4; k++ {
			sc := okSc
			if k%2 == 1 {
				sc = noSc
			}
			emit(valid(), k < 2, sc, "after-descriptor-exhaustion")
		}
	}

	// (6) concurrent connections: every connection must get its own answer
	for round := 0; round < 4; round++ {
		nconn := []int{2, 8, 32, 64}[round]
		srv.mu.Lock()
		srv.calls = nil
		srv.byUser = map[string]c05Script{}
		type job struct {
			login  string
			stream []byte
			sc     c05Script
			reply  []byte
			got    bool
		}
		jobs := make([]*job, nconn)
		for i := range jobs {
			login := fmt.Sprintf("user%d-%d", round, i)
			sc := c05Script{ok: i%2 == 0, msg: []byte("answer for " + login)}
			srv.byUser[login] = sc
			var b bytes.Buffer
			for _, f := range []string{login, "pw" + login, "svc", ""} {
				b.Write([]byte{byte(len(f) >> 8), byte(len(f))})
				b.WriteString(f)
			}
			jobs[i] = &job{login: login, stream: b.Bytes(), sc: sc}
		}
		srv.mu.Unlock()
		var wg sync.WaitGroup
		for _, j := range jobs {
			wg.Add(1)
			go func(j *job) {
				defer wg.Done()
				j.reply, j.got = c05Conn(sock, j.stream, []int{3, 5}, true, 5*time.Second)
			}(j)
		}
		wg.Wait()
		srv.mu.Lock()
		counts := map[string]int{}
		for _, c := range srv.calls {
			counts[c[0]]++
		}
		srv.byUser = nil
		srv.mu.Unlock()
		for _, j := range jobs {
			rep, gc := "None", "None"
			viol := ""
			if j.got {
				rep = "(Some " + cField2(j.reply) + ")"
				resp := &Response{}
				if err := resp.Decode(bytes.NewReader(j.reply)); err == nil {
					gc = "(Some (" + cB(resp.Result) + ", " + cField2([]byte(resp.Message)) + "))"
					if resp.Result != j.sc.ok || resp.Message != string(j.sc.msg) {
						viol = fmt.Sprintf("connection of %s received another connection's answer: %v %q", j.login, resp.Result, resp.Message)
					}
				}
			}
			var cs []string
			for k := 0; k < counts[j.login]; k++ {
				cs = append(cs, cList([]string{cS(j.login), cS("pw" + j.login), cS("svc"), cS("")}))
			}
			c := vCase{Prop: "C05", Kind: "conn", Class: fmt.Sprintf("concurrent/%d", nconn), Nontrivial: true,
				Coq:   fmt.Sprintf("Conn %s true %s %s %s %s", cField2(j.stream), cCb(j.sc), cList(cs), rep, gc),
				Human: map[string]interface{}{"login": j.login, "calls": counts[j.login], "got": j.got}}
			if viol != "" {
				c.Violation = viol
			}
			em.emit(c)
		}
	}
}

func truncB(b []byte, n int) []byte {
	if len(b) > n {
		return b[:n]
	}
	return b
}

// compact term for long uniform runs inside otherwise short data
func cField2(b []byte) string {
	if len(b) > 600 {
		// find a long uniform suffix after a short head
		for head := 0; head < 8 && head < len(b); head++ {
			uniform := true
			for _, x := range b[head:] {
				if x != b[head] {
					uniform = false
					break
				}
			}
			if uniform {
				return "(" + cH(b[:head]) + " ++ " + cRep(b[head], len(b)-head) + ")"
			}
		}
	}
	return cH(b)
}
