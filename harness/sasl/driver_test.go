// Correspondence driver for package sasl (properties C13 and C05).
// Compiled into the package through go -overlay; never part of the repository.
package sasl

import (
	"bytes"
	"errors"
	"fmt"
	"io"
	"os"
	"strings"
	"testing"
)

// ---- scripted reader ----
type vEv struct {
	data []byte
	st   int // 0 Cont, 1 EOF, 2 error
}

var errBoom = errors.New("boom")

type vScriptReader struct {
	evs    []vEv
	i      int
	actual []vEv // what Read actually returned (buffers may split chunks)
}

func (r *vScriptReader) Read(p []byte) (int, error) {
	if r.i >= len(r.evs) {
		r.actual = append(r.actual, vEv{nil, 1})
		return 0, io.EOF
	}
	e := &r.evs[r.i]
	n := copy(p, e.data)
	if n < len(e.data) {
		r.actual = append(r.actual, vEv{append([]byte{}, e.data[:n]...), 0})
		e.data = e.data[n:]
		return n, nil
	}
	r.i++
	r.actual = append(r.actual, vEv{append([]byte{}, e.data...), e.st})
	switch e.st {
	case 1:
		return n, io.EOF
	case 2:
		return n, errBoom
	}
	return n, nil
}

func cEvs(evs []vEv) string {
	var xs []string
	for _, e := range evs {
		st := "Cont"
		if e.st == 1 {
			st = "EofS"
		} else if e.st == 2 {
			st = "ErrS"
		}
		xs = append(xs, "("+cH(e.data)+", "+st+")")
	}
	return cList(xs)
}

func humanEvs(evs []vEv) []string {
	var xs []string
	for _, e := range evs {
		xs = append(xs, fmt.Sprintf("%s/%d", vHex(e.data), e.st))
	}
	return xs
}

func cField(b []byte) string {
	// compact representation of long uniform fields
	if len(b) > 600 {
		uniform := true
		for _, x := range b {
			if x != b[0] {
				uniform = false
				break
			}
		}
		if uniform {
			return cRep(b[0], len(b))
		}
	}
	return cH(b)
}

// ---- C13 ----
// every third decode goes into a value that earlier decodes (successful or refused) have already
// filled: the result must depend on the byte stream only, not on what the receiver held before
var (
	c13PrevReq  = &Request{Login: "previous-login", Password: "previous-password", Service: "previous-service", Realm: "previous-realm"}
	c13PrevResp = &Response{true, "previous message"}
	c13Count    int
)

func c13DecReq(em *vEmitter, evs []vEv, class string) {
	rd := &vScriptReader{evs: cloneEvs(evs)}
	req := &Request{}
	c13Count++
	if c13Count%3 == 0 {
		req = c13PrevReq
		class += "/reused-value"
	}
	err := req.Decode(rd)
	var out string
	if err != nil {
		out = "None"
	} else {
		out = "(Some " + cList([]string{cS(req.Login), cS(req.Password), cS(req.Service), cS(req.Realm)}) + ")"
	}
	em.emit(vCase{Prop: "C13", Kind: "decreq", Class: class, Nontrivial: err == nil || len(rd.actual) > 1,
		Coq:   "DecReq " + cEvs(rd.actual) + " " + out,
		Human: map[string]interface{}{"events": humanEvs(rd.actual), "err": fmt.Sprint(err), "login": vHex([]byte(req.Login)), "password": vHex([]byte(req.Password)), "service": vHex([]byte(req.Service)), "realm": vHex([]byte(req.Realm))}})
}

func c13DecResp(em *vEmitter, evs []vEv, class string) {
	rd := &vScriptReader{evs: cloneEvs(evs)}
	resp := &Response{false, ""}
	c13Count++
	if c13Count%3 == 0 {
		resp = c13PrevResp
		class += "/reused-value"
	}
	err := resp.Decode(rd)
	out := "None"
	if err == nil {
		out = "(Some (" + cB(resp.Result) + ", " + cS(resp.Message) + "))"
	}
	em.emit(vCase{Prop: "C13", Kind: "decresp", Class: class, Nontrivial: err == nil,
		Coq:   "DecResp " + cEvs(rd.actual) + " " + out,
		Human: map[string]interface{}{"events": humanEvs(rd.actual), "err": fmt.Sprint(err), "result": resp.Result, "message": vHex([]byte(resp.Message))}})
}

func cloneEvs(evs []vEv) []vEv {
	out := make([]vEv, len(evs))
	for i, e := range evs {
		out[i] = vEv{append([]byte{}, e.data...), e.st}
	}
	return out
}

// the byte slice a Marshal call returned is the caller's: it is looked at again after the NEXT Marshal
// (of either message kind) - an encoder that recycles its buffer shows here
var c13Held struct {
	coqPrefix string // "EncReq f0 f1 f2 f3" / "EncResp ok msg" of the held message
	class     string
	m, copyOf []byte
}

func c13CheckHeld(em *vEmitter) {
	h := &c13Held
	if h.m != nil && !bytes.Equal(h.m, h.copyOf) {
		em.emit(vCase{Prop: "C13", Kind: "encheld", Class: h.class + "/held-across-next-marshal", Nontrivial: true,
			Coq:   h.coqPrefix + " (Some " + cH(h.m) + ")",
			Human: map[string]interface{}{"what": "the bytes returned by Marshal changed when the next message was marshalled", "was": vHex(h.copyOf), "now": vHex(h.m)}})
	}
	h.m = nil
}

func c13Hold(coqPrefix, class string, m []byte) {
	c13Held.coqPrefix, c13Held.class, c13Held.m, c13Held.copyOf = coqPrefix, class, m, append([]byte{}, m...)
}

func c13EncReq(em *vEmitter, f [4][]byte, class string) {
	req := &Request{string(f[0]), string(f[1]), string(f[2]), string(f[3])}
	var buf bytes.Buffer
	err := req.Encode(&buf)
	// Marshal must agree with Encode
	m, merr := req.Marshal()
	c13CheckHeld(em)
	if merr == nil && len(m) < 2000 {
		c13Hold(fmt.Sprintf("EncReq %s %s %s %s", cField(f[0]), cField(f[1]), cField(f[2]), cField(f[3])), class, m)
	}
	if (err == nil) != (merr == nil) || (err == nil && !bytes.Equal(m, buf.Bytes())) {
		class += "/marshal-differs"
		err = fmt.Errorf("Marshal and Encode disagree")
	}
	out := "None"
	if err == nil {
		out = "(Some " + cH(buf.Bytes()) + ")"
	}
	nt := true
	for _, x := range f {
		if len(x) > 600 {
			nt = nt && true
		}
	}
	em.emit(vCase{Prop: "C13", Kind: "encreq", Class: class, Nontrivial: nt,
		Coq:   fmt.Sprintf("EncReq %s %s %s %s %s", cField(f[0]), cField(f[1]), cField(f[2]), cField(f[3]), out),
		Human: map[string]interface{}{"lens": []int{len(f[0]), len(f[1]), len(f[2]), len(f[3])}, "err": fmt.Sprint(err)}})
}

func c13EncResp(em *vEmitter, ok bool, msg []byte, class string) {
	resp := &Response{ok, string(msg)}
	var buf bytes.Buffer
	err := resp.Encode(&buf)
	if m, merr := resp.Marshal(); (err == nil) != (merr == nil) || (err == nil && !bytes.Equal(m, buf.Bytes())) {
		class += "/marshal-differs"
		err = fmt.Errorf("Marshal and Encode disagree")
	} else {
		c13CheckHeld(em)
		if merr == nil && len(m) < 2000 {
			c13Hold(fmt.Sprintf("EncResp %s %s", cB(ok), cField(msg)), class, m)
		}
	}
	out := "None"
	if err == nil {
		out = "(Some " + cH(buf.Bytes()) + ")"
	}
	em.emit(vCase{Prop: "C13", Kind: "encresp", Class: class, Nontrivial: true,
		Coq:   fmt.Sprintf("EncResp %s %s %s", cB(ok), cField(msg), out),
		Human: map[string]interface{}{"ok": ok, "msglen": len(msg), "err": fmt.Sprint(err)}})
}

func fieldOfLen(r *vRng, n int) []byte {
	if n > 600 {
		return bytes.Repeat([]byte{byte('a' + r.intn(26))}, n)
	}
	return r.bytes(n)
}

// all fragmentations of s into consecutive non-empty chunks, last delivered
// either with EOF or followed by a separate (nil, EOF)
func allFragmentations(s []byte, fn func([]vEv)) {
	n := len(s)
	if n == 0 {
		fn([]vEv{{nil, 1}})
		return
	}
	for mask := 0; mask < 1<<(n-1); mask++ {
		var evs []vEv
		start := 0
		for i := 1; i <= n; i++ {
			if i == n || mask&(1<<(i-1)) != 0 {
				evs = append(evs, vEv{s[start:i], 0})
				start = i
			}
		}
		// variant A: separate EOF
		a := append(cloneEvs(evs), vEv{nil, 1})
		fn(a)
		// variant B: last chunk together with EOF
		b := cloneEvs(evs)
		b[len(b)-1].st = 1
		fn(b)
	}
}

func randomFragmentation(r *vRng, s []byte) []vEv {
	var evs []vEv
	i := 0
	for i < len(s) {
		if r.intn(5) == 0 {
			k := 1 + r.intn(3)
			for j := 0; j < k; j++ {
				evs = append(evs, vEv{nil, 0}) // zero-length reads
			}
		}
		n := 1 + r.intn(1+len(s)-i)
		if r.intn(3) == 0 {
			n = 1
		}
		if i+n > len(s) {
			n = len(s) - i
		}
		evs = append(evs, vEv{s[i : i+n], 0})
		i += n
	}
	switch r.intn(4) {
	case 0:
		if len(evs) > 0 {
			evs[len(evs)-1].st = 1
		} else {
			evs = append(evs, vEv{nil, 1})
		}
	case 1:
		evs = append(evs, vEv{nil, 2}) // read error after all data
	default:
		evs = append(evs, vEv{nil, 1})
	}
	return evs
}

func validRequestBytes(r *vRng) []byte {
	var b bytes.Buffer
	lens := []int{1 + r.intn(6), 1 + r.intn(6), r.intn(5), r.intn(4)}
	if r.intn(6) == 0 {
		lens[r.intn(4)] = []int{0, 255, 256, 257}[r.intn(4)]
	}
	for _, l := range lens {
		b.Write([]byte{byte(l >> 8), byte(l)})
		b.Write(r.bytes(l))
	}
	return b.Bytes()
}

func runC13(em *vEmitter) {
	r := vNewRng(vSeed())
	thorough := vThorough()

	// (1) encoder: boundary lengths on each of the four fields
	lens := []int{0, 1, 255, 256, 257}
	big := []int{65535, 65536}
	for _, a := range lens {
		for _, b := range lens {
			for _, c := range lens {
				for _, d := range lens {
					c13EncReq(em, [4][]byte{fieldOfLen(r, a), fieldOfLen(r, b), fieldOfLen(r, c), fieldOfLen(r, d)}, "enc/boundary")
				}
			}
		}
	}
	if thorough {
		all := append(append([]int{}, lens...), big...)
		for _, a := range all {
			for _, b := range all {
				for _, c := range all {
					for _, d := range all {
						if a < 65535 && b < 65535 && c < 65535 && d < 65535 {
							continue
						}
						c13EncReq(em, [4][]byte{fieldOfLen(r, a), fieldOfLen(r, b), fieldOfLen(r, c), fieldOfLen(r, d)}, "enc/boundary-big")
					}
				}
			}
		}
	} else {
		for pos := 0; pos < 4; pos++ {
			for _, bl := range big {
				for _, other := range []int{0, 1, 256} {
					var f [4][]byte
					for i := range f {
						f[i] = fieldOfLen(r, other)
					}
					f[pos] = fieldOfLen(r, bl)
					c13EncReq(em, f, "enc/boundary-big")
				}
			}
		}
	}
	nrand := 300
	if thorough {
		nrand = 5000
	}
	for i := 0; i < nrand; i++ {
		var f [4][]byte
		for j := range f {
			f[j] = r.bytes(r.intn(40))
			if r.intn(8) == 0 {
				f[j] = r.bytes(250 + r.intn(12))
			}
		}
		c13EncReq(em, f, "enc/random")
	}
	// responses
	for _, ok := range []bool{true, false} {
		for _, l := range []int{0, 1, 2, 252, 253, 254, 300, 65532, 65533} {
			c13EncResp(em, ok, fieldOfLen(r, l), "encresp/boundary")
		}
		for i := 0; i < 40; i++ {
			c13EncResp(em, ok, r.bytes(r.intn(30)), "encresp/random")
		}
		c13EncResp(em, ok, []byte(" leading space"), "encresp/space")
	}

	// (2) decoder: all byte strings up to length L over a 5-symbol alphabet
	alpha := []byte{0, 1, 2, 'a', 0xff}
	maxLen := 5
	if thorough {
		maxLen = 7
	}
	var gen func(prefix []byte)
	gen = func(prefix []byte) {
		c13DecReq(em, []vEv{{append([]byte{}, prefix...), 1}}, "dec/exhaustive")
		if len(prefix) <= 4 {
			c13DecResp(em, []vEv{{append([]byte{}, prefix...), 1}}, "decresp/exhaustive")
		}
		if len(prefix) == maxLen {
			return
		}
		for _, a := range alpha {
			gen(append(prefix, a))
		}
	}
	gen(nil)

	// response texts
	for _, t := range []string{"OK", "NO", "OK ", "NO x", "OKAY", "ok", "O", "", "OK successfully authenticated", "NO wrong credentials", "XX", "OK\x00", "NOO"} {
		b := append([]byte{byte(len(t) >> 8), byte(len(t))}, t...)
		c13DecResp(em, []vEv{{b, 1}}, "decresp/text")
		c13DecResp(em, randomFragmentation(r, b), "decresp/text-frag")
		c13DecResp(em, []vEv{{append(b, 'z'), 0}, {nil, 1}}, "decresp/trailing")
	}

	// (3) every fragmentation of short streams
	short := [][]byte{
		{0, 1, 'a', 0, 1, 'b', 0, 0, 0, 0},
		{0, 2, 'a', 'b', 0, 1, 'c', 0, 1, 'd', 0, 0},
		{0, 1, 'a', 0, 1, 'b', 0, 0, 0, 1, 'x', 'y'}, // trailing byte
		{0, 1, 'a', 0, 0, 0, 0, 0, 0},                // empty password
		{0, 1, 'a', 0, 1, 'b', 0, 0, 0},              // truncated
		{0, 1, 'a', 1, 1, 'b', 0, 0, 0, 0},           // over-limit prefix 257
	}
	if thorough {
		short = append(short, []byte{0, 3, 'a', 'b', 'c', 0, 2, 'd', 'e', 0, 1, 'f', 0, 1, 'g'})
	}
	for _, s := range short {
		allFragmentations(s, func(evs []vEv) { c13DecReq(em, evs, "dec/all-fragmentations") })
	}

	// (4) random longer streams with random fragmentation incl. empty reads,
	//     EOF-with-data, read errors, boundary field lengths, garbage
	nfr := 1500
	if thorough {
		nfr = 60000
	}
	for i := 0; i < nfr; i++ {
		var s []byte
		switch r.intn(6) {
		case 0:
			s = r.bytes(r.intn(30))
		case 1:
			s = validRequestBytes(r)
			if len(s) > 0 {
				s = s[:r.intn(len(s)+1)]
			}
		default:
			s = validRequestBytes(r)
			if r.intn(3) == 0 {
				s = append(s, r.bytes(r.intn(6))...)
			}
		}
		c13DecReq(em, randomFragmentation(r, s), "dec/random-frag")
	}
	// several long fields in one request (every field is within the limit, the message is not small):
	// read whole, byte-wise, and in random fragments - the decoder's internal buffer has to move
	for _, ls := range [][4]int{{250, 250, 4, 11}, {256, 256, 256, 256}, {256, 1, 1, 1}, {200, 100, 0, 0}, {255, 255, 0, 255}, {130, 130, 130, 130}, {1, 256, 256, 3}} {
		var b bytes.Buffer
		for fi, l := range ls {
			b.Write([]byte{byte(l >> 8), byte(l)})
			b.Write(bytes.Repeat([]byte{byte('a' + fi)}, l))
		}
		s := b.Bytes()
		c13DecReq(em, []vEv{{s, 1}}, "dec/long-fields/whole")
		var bytewise []vEv
		for _, c := range s {
			bytewise = append(bytewise, vEv{[]byte{c}, 0})
		}
		bytewise = append(bytewise, vEv{nil, 1})
		c13DecReq(em, bytewise, "dec/long-fields/byte-wise")
		for k := 0; k < 6; k++ {
			c13DecReq(em, randomFragmentation(r, s), "dec/long-fields/random-frag")
		}
	}
	// long runs of empty reads: 99, 100, 101, 102 consecutive (0, nil)
	for _, k := range []int{99, 100, 101, 102} {
		s := validRequestBytes(r)
		var evs []vEv
		evs = append(evs, vEv{s[:3], 0})
		for j := 0; j < k; j++ {
			evs = append(evs, vEv{nil, 0})
		}
		evs = append(evs, vEv{s[3:], 1})
		c13DecReq(em, evs, "dec/empty-read-run")
	}
	// a chunk larger than the scanner's initial buffer
	{
		s := validRequestBytes(r)
		s = append(s, bytes.Repeat([]byte{'z'}, 9000)...)
		c13DecReq(em, []vEv{{s, 1}}, "dec/large-chunk")
	}
}

func TestVerifDriver(t *testing.T) {
	prop := os.Getenv("VERIF_PROP")
	if prop == "" {
		t.Skip("VERIF_PROP not set")
	}
	em := vOpenEmitter()
	defer em.close()
	switch {
	case strings.EqualFold(prop, "C13"):
		runC13(em)
	case strings.EqualFold(prop, "C05"):
		runC05(em, t)
	default:
		t.Fatalf("unknown property %s", prop)
	}
}
