#ifndef VERIF_PAM_MACROS_H
#define VERIF_PAM_MACROS_H
#include <stdlib.h>
/* as in Linux-PAM's _pam_macros.h */
#define _pam_overwrite(x)        \
do {                             \
     register char *__xx__;      \
     if ((__xx__=(x)))           \
          while (*__xx__)        \
               *__xx__++ = '\0'; \
} while (0)
#define _pam_drop(X) \
do {                 \
    if (X) {         \
        free(X);     \
        X=NULL;      \
    }                \
} while (0)
#endif
