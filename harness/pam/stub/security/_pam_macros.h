#ifndef VERIF_PAM_MACROS_H
#define VERIF_PAM_MACROS_H
#include <stdlib.h>
/* as in Linux-PAM's _pam_macros.h */
#define _pam_overwrite(x)        \
do {                             \
     register char *__xx__;      \
     if ((__xx__=(x)))           \
          while (*__xx__)        \
               *__xx__++ = '\0'; \
} while (0)
#define _pam_drop(X) \
do {                 \
    if (X) {         \
        free(X);     \
        X=NULL;      \
    }                \
} while (0)

#define _pam_overwrite_n(x,n)   \
do {                             \
     register char *__xx__;      \
     register unsigned int __i__ = 0;    \
     if ((__xx__=(x)))           \
        for (;__i__<n; __i__++) \
            __xx__[__i__] = 0; \
} while (0)

#define _pam_drop_reply(/* struct pam_response * */ reply, /* int */ replies) \
do {                                              \
    int reply_i;                                  \
                                                  \
    for (reply_i=0; reply_i<replies; ++reply_i) { \
	if (reply[reply_i].resp) {                \
	    _pam_overwrite(reply[reply_i].resp);  \
	    free(reply[reply_i].resp);            \
	}                                         \
    }                                             \
    if (reply)                                    \
	free(reply);                              \
} while (0)

#define x_strdup(s)  ( (s) ? strdup(s):NULL )
#define D(x) do { } while (0)
#define _pam_output_debug(x...) do { } while (0)

#endif
