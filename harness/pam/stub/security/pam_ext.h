#ifndef VERIF_PAM_EXT_H
#define VERIF_PAM_EXT_H
#include <stdarg.h>
#include <security/pam_modules.h>
#define PAM_FORMAT(params) __attribute__((__format__ params))
void pam_vsyslog(const pam_handle_t *pamh, int priority, const char *fmt, va_list args);
int pam_prompt(pam_handle_t *pamh, int style, char **response, const char *fmt, ...);
#endif
