/* Minimal stand-in for <security/pam_modules.h> (the sandbox has no PAM
   development headers).  Only what pam_whawty.c uses. */
#ifndef VERIF_PAM_MODULES_H
#define VERIF_PAM_MODULES_H
#include <stdarg.h>
typedef struct pam_handle pam_handle_t;
#define PAM_SUCCESS 0
#define PAM_BUF_ERR 5
#define PAM_AUTH_ERR 7
#define PAM_AUTHINFO_UNAVAIL 9
#define PAM_CRED_ERR 17
#define PAM_AUTHTOK_RECOVERY_ERR 21
#define PAM_CONV_AGAIN 30
#define PAM_INCOMPLETE 31
#define PAM_SILENT 0x8000U
#define PAM_AUTHTOK 6
#define PAM_PROMPT_ECHO_OFF 1
#define PAM_EXTERN extern
int pam_get_user(pam_handle_t *pamh, const char **user, const char *prompt);
int pam_get_item(const pam_handle_t *pamh, int item_type, const void **item);
int pam_set_item(pam_handle_t *pamh, int item_type, const void *item);
const char *pam_strerror(pam_handle_t *pamh, int errnum);
int pam_sm_authenticate(pam_handle_t *pamh, int flags, int argc, const char **argv);
int pam_sm_setcred(pam_handle_t *pamh, int flags, int argc, const char **argv);
#endif
