/* Driver for pam_whawty.c: provides the few libpam functions the module
   calls and runs pam_sm_authenticate once.
   usage: pamdrv <user-hex> <stack-pw-hex|-> <conv-pw-hex|-> <flags> [module options...]
   "-" = not available (no PAM_AUTHTOK on the stack / conversation returns nothing).
   Prints "PAMRESULT <code>". */
#include <stdio.h>
#include <stdlib.h>
#include <string.h>
#include <stdarg.h>
#include <signal.h>
#include <sys/types.h>
#include <sys/socket.h>
#include <unistd.h>
#include <security/pam_modules.h>
#include <security/pam_ext.h>

struct pam_handle { char *user; char *authtok; char *conv_pw; int prompted; int setitem; };

static char *unhex(const char *h) {
  size_t n = strlen(h) / 2;
  char *out = malloc(n + 1);
  for (size_t i = 0; i < n; i++) { unsigned v; sscanf(h + 2 * i, "%2x", &v); out[i] = (char)v; }
  out[n] = 0;
  return out;
}

int pam_get_user(pam_handle_t *pamh, const char **user, const char *prompt) { (void)prompt; *user = pamh->user; return PAM_SUCCESS; }
int pam_get_item(const pam_handle_t *pamh, int item_type, const void **item) {
  if (item_type == PAM_AUTHTOK) { *item = pamh->authtok; return PAM_SUCCESS; }
  *item = NULL; return PAM_SUCCESS;
}
int pam_set_item(pam_handle_t *pamh, int item_type, const void *item) {
  if (item_type == PAM_AUTHTOK) { free(pamh->authtok); pamh->authtok = item ? strdup(item) : NULL; pamh->setitem++; }
  return PAM_SUCCESS;
}
const char *pam_strerror(pam_handle_t *pamh, int errnum) { (void)pamh; (void)errnum; return "pam error"; }
void pam_vsyslog(const pam_handle_t *pamh, int priority, const char *fmt, va_list args) {
  (void)pamh; (void)priority;
  /* always format the message, as the real pam_vsyslog does: a %s argument that is not
     NUL-terminated inside its object is then seen by the sanitizer */
  char *msg = malloc(8192);
  if (msg) {
    vsnprintf(msg, 8192, fmt, args);
    if (getenv("PAMDRV_LOG")) { fputs(msg, stderr); fputc('\n', stderr); }
    free(msg);
  }
}
int pam_prompt(pam_handle_t *pamh, int style, char **response, const char *fmt, ...) {
  (void)style; (void)fmt;
  pamh->prompted++;
  *response = pamh->conv_pw ? strdup(pamh->conv_pw) : NULL;
  return PAM_SUCCESS;
}

/* short writes: with PAMDRV_SEND_CAP=n every send()/write() of the MODULE (linked with
   -Wl,--wrap) hands at most n bytes to the kernel, as a full socket buffer would */
ssize_t __real_send(int fd, const void *buf, size_t len, int flags);
ssize_t __real_write(int fd, const void *buf, size_t len);
static size_t capped(size_t len) {
  const char *c = getenv("PAMDRV_SEND_CAP");
  size_t n = c ? (size_t)atoi(c) : 0;
  return (n > 0 && len > n) ? n : len;
}
ssize_t __wrap_send(int fd, const void *buf, size_t len, int flags) { return __real_send(fd, buf, capped(len), flags); }
ssize_t __wrap_write(int fd, const void *buf, size_t len) { return __real_write(fd, buf, fd > 2 ? capped(len) : len); }

static void on_usr1(int sig) { (void)sig; }

int main(int argc, char **argv) {
  /* the host application handles SIGUSR1 (no SA_RESTART): system calls of the module may be interrupted */
  struct sigaction sa;
  memset(&sa, 0, sizeof sa);
  sa.sa_handler = on_usr1;
  sigaction(SIGUSR1, &sa, NULL);
  if (argc < 5) { fprintf(stderr, "usage\n"); return 2; }
  struct pam_handle h; memset(&h, 0, sizeof h);
  h.user = unhex(argv[1]);
  h.authtok = strcmp(argv[2], "-") ? unhex(argv[2]) : NULL;
  h.conv_pw = strcmp(argv[3], "-") ? unhex(argv[3]) : NULL;
  int flags = atoi(argv[4]);
  int ret = pam_sm_authenticate(&h, flags, argc - 5, (const char **)(argv + 5));
  printf("PAMRESULT %d prompted=%d setitem=%d\n", ret, h.prompted, h.setitem);
  fflush(stdout);
  free(h.user); free(h.conv_pw); free(h.authtok);
  return 0;
}
