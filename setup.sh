#!/bin/bash
# Build the verification framework from files on disk only (offline).
set -e
cd "$(dirname "$0")"
export GOFLAGS=-mod=mod GOPROXY=off GOSUMDB=off GOTOOLCHAIN=local
mkdir -p .build evidence replays
(cd tools/facts && go build -o ../../.build/facts .)
./.build/facts "${VERIF_REPO:-/repo}" coq/theories/Extracted.v
cd coq
coq_makefile -f _CoqProject -o Makefile >/dev/null 2>&1
timeout 3000 make -j16 >/dev/null 2>../.build/coq-build.log || { tail -50 ../.build/coq-build.log; exit 1; }
echo "setup ok"
